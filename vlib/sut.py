"""System under test adapter: compile descriptions with the sourcer found in VERIF_REPO
(default /repo), run parse calls under a watchdog, normalise outcomes."""
import os
import sys
import signal
import resource
import itertools

REPO = os.environ.get('VERIF_REPO', '/repo')
if REPO not in sys.path[:1]:
    sys.path.insert(0, REPO)
os.environ.setdefault('JVS_SOURCER_VERIF', '1')
sys.dont_write_bytecode = True

import sourcer  # noqa: E402

_real = os.path.realpath(sourcer.__file__)
if not _real.startswith(os.path.realpath(REPO) + os.sep):
    sys.stderr.write('HARNESS ERROR: sourcer imported from %s, not from %s\n' % (_real, REPO))
    sys.exit(2)

from sourcer import Grammar  # noqa: E402
from . import peg  # noqa: E402


class Hang(BaseException):
    pass


_armed = False


def _on_alarm(signum, frame):
    if _armed:
        raise Hang()


_installed = False


def install_watchdog(mem_gib=6):
    global _installed
    if _installed:
        return
    _installed = True
    signal.signal(signal.SIGALRM, _on_alarm)
    try:
        lim = mem_gib << 30
        resource.setrlimit(resource.RLIMIT_AS, (lim, lim))
    except Exception:
        pass


class timeout:
    """with timeout(sec): ...   raises Hang in the main thread when the budget is used."""

    def __init__(self, sec):
        self.sec = sec

    def __enter__(self):
        global _armed
        install_watchdog()
        _armed = True
        # Repeating: an exception raised by the handler while the interpreter happens to be
        # inside a GC callback (hypothesis installs one) or a __del__ is swallowed as
        # "unraisable"; the next tick raises again.
        signal.setitimer(signal.ITIMER_REAL, self.sec, 0.2)

    def __exit__(self, *a):
        global _armed
        _armed = False
        signal.setitimer(signal.ITIMER_REAL, 0)
        return False


_name_counter = itertools.count()


def fresh_name(prefix='vf'):
    return '%s%d_%d' % (prefix, os.getpid(), next(_name_counter))


def compile_grammar(desc, include_source=False, budget=20.0):
    """Returns (module, None) or (None, ('EXC', type, msg)) / (None, ('HANG',))."""
    try:
        with timeout(budget):
            return Grammar(desc, include_source=include_source), None
    except Hang:
        return None, ('HANG',)
    except MemoryError:
        return None, ('EXC', 'MemoryError', '')
    except RecursionError as e:
        return None, ('EXC', 'RecursionError', '')
    except Exception as e:
        return None, ('EXC', type(e).__name__, str(e)[:200])


def entry(module, name):
    """The parse callable for an entry point: None = module-level parse."""
    if name is None:
        return module.parse
    return getattr(module, name).parse


def run(module, entry_name, text, pos=0, fullparse=True, budget=10.0, raw=False, fn=None):
    """Outcome tuple:
       ('OK', canon, end)   ('PARTIAL', canon, end)   ('FAIL', index)
       ('EXC', type, msg)   ('HANG',)
    With raw=True returns (outcome, raw_value_or_exception)."""
    rawv = None
    try:
        f = fn if fn is not None else entry(module, entry_name)
        with timeout(budget):
            try:
                v = f(text, pos, fullparse) if (pos or not fullparse) else f(text)
                rawv = v
                out = ('OK', peg.canon(v), len(text) if fullparse else None)
            except module.PartialParseError as e:
                rawv = e
                out = ('PARTIAL', peg.canon(e.partial_result), e.last_position.index)
            except module.ParseError as e:
                rawv = e
                out = ('FAIL', e.position.index)
    except Hang:
        out = ('HANG',)
    except MemoryError:
        out = ('EXC', 'MemoryError', '')
    except RecursionError as e:
        rawv = e
        out = ('EXC', 'RecursionError', '')
    except Exception as e:
        rawv = e
        out = ('EXC', type(e).__name__, str(e)[:200])
    return (out, rawv) if raw else out


def expected(ref_result, text, fullparse=True):
    """Outcome the reference predicts from `Interp` result (None | (value, end))."""
    if ref_result is None:
        return ('FAIL',)
    v, end = ref_result
    if fullparse and end < len(text):
        return ('PARTIAL', peg.canon(v), end)
    return ('OK', peg.canon(v), len(text) if fullparse else None)


def agrees(exp, got):
    """Compare expected and observed outcomes; FAIL index is not part of the comparison."""
    if exp[0] == 'FAIL':
        return got[0] == 'FAIL'
    return exp == got


def forget(module_name):
    sys.modules.pop(module_name, None)
