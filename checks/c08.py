"""C08 - parse has exactly three outcomes, fixed by the start rule's match.
Oracle: reference interpreter at `pos`; metamorphic shift relation.  DESIGN.md 4/C08."""
import sys

from vlib import runner, peg, gens, gens_rich, sut, shrink, diff
from vlib.runner import Check, Result, h64


def expected_at(r, t, pos, fullparse):
    if r is None:
        return ('FAIL',)
    v, end = r
    if fullparse and end < len(t):
        return ('PARTIAL', peg.canon(v), end)
    return ('OK', peg.canon(v), len(t) if fullparse else None)


def lookbehind_free(g):
    for r in g.rules:
        for e in peg.rule_exprs(r):
            for x in peg.walk(e):
                if x[0] == 'backtrack':
                    return False
                if x[0] == 'rx' and any(c in str(x[1]) for c in ('^', '$', '\\b', '\\B', '\\A', '\\Z', '(?<')):
                    return False
    for _, e in g.ignores:
        for x in peg.walk(e):
            if x[0] == 'rx' and any(c in str(x[1]) for c in ('^', '$', '\\b', '(?<')):
                return False
    return True


PCLASS_ARGS = {'CV': [('ab',), ('b',), ('',)], 'CN': [(0,), (1,), (2,)]}


class C08(Check):
    id = 'C08'
    technique = 'PBT: hypothesis grammars (core with/without ignore, rich with classes); every rule/class entry x all short inputs x every pos x both fullparse values; reference interpreter + shift relation'
    rule = ('cases = (grammar, entry, input, pos, fullparse); grammars: hypothesis core grammars (text/bytes, optional ignore) '
            'and rich grammars (classes, templates, let, where); entries: module-level parse, every parameterless rule and '
            'class, and the parameterised classes CV(x), CN(n) through C.parse(args)(text); inputs: all strings of length <= 3 '
            'incl. the empty one, every pos in 0..len, fullparse True and False, plus length-4 inputs at pos 0. Outcome '
            '(value / PartialParseError with partial_result and last_position.index / ParseError; anything else is a '
            'violation) compared with the reference evaluated at pos; for lookbehind- and anchor-free grammars parse(text, k) '
            'must equal parse(text[k:], 0) with indices shifted by k. Non-trivial iff pos > 0, the input is empty, the match '
            'is zero-width, or the outcome is PARTIAL; distinct by (grammar text, entry, input, pos, fullparse).')
    assumptions = ['parameterised rules cannot receive arguments through R.parse and are not entry points',
                   'inline Python of generated grammars does not raise on the happy path (cases where the reference '
                   'itself cannot evaluate the Python are skipped and counted)']
    budget_quick = 170
    budget_thorough = 1500

    def tasks(self, tier, seed):
        n = 16 if tier == 'quick' else 64
        per = 24 if tier == 'quick' else 160
        return [('hyp', seed * 1000003 + s, per) for s in range(n)]

    def run_task(self, task):
        from hypothesis import given, settings, seed, HealthCheck, Phase, strategies as st
        res = Result()
        _, s, n = task
        gram = st.integers(0, 6).flatmap(lambda m: (
            gens.core_grammar(nrules=5, depth=4, mode='bytes') if m == 0 else
            gens.core_grammar(nrules=5, depth=4) if m in (1, 2) else
            gens_rich.rich_grammar(nrules=3, depth=3, mode='bytes') if m == 6 else
            gens_rich.rich_grammar(nrules=3, depth=3)))

        @seed(s)
        @settings(max_examples=n, database=None, deadline=None, phases=[Phase.generate],
                  suppress_health_check=list(HealthCheck), report_multiple_bugs=False)
        @given(gram, st.booleans(), st.data())
        def prop(g, with_ignore, data):
            rich = any(r[1] == 'Tsame' for r in g.rules)
            if with_ignore and not rich:
                g = g.copy(ignores=[(None, ('rx', ' +'))])
            alpha = 'ab12' if rich else ('ab ' if with_ignore else data.draw(st.sampled_from(['abZ', 'ab\n'])))
            named = None
            if data.draw(st.integers(0, 2)) == 0:
                named = sut.fresh_name('vfc08_')
                g = g.copy(header=named)
                res.hist['named'] += 1
            if runner.over_budget(res):
                return
            desc = peg.render(g)
            mod, err = sut.compile_grammar(desc)
            if mod is None:
                res.mismatch({'g': peg.g_to_dict(g), 'entry': 'start', 'text': '', 'pos': 0, 'fullparse': True})
                return
            res.hist['grammars_rich' if rich else 'grammars_core'] += 1
            shiftable = lookbehind_free(g)
            entries = [None] + [e for e in gens_rich.entry_points(g) if e[0] in 'RKsF'][:7]
            short = gens.all_inputs(alpha, 3, g.mode)
            len4 = gens.all_inputs(alpha, 4, g.mode)[len(short):]
            rd = g.ruledict()
            for name in entries:
                rname = g.start_name() if name is None else name
                fn = sut.entry(mod, name)
                self.run_entry(res, g, mod, desc, name, rname, fn, short, len4, shiftable, {})
            if rich:
                for cname, argsets in PCLASS_ARGS.items():
                    for args in argsets:
                        try:
                            fn = getattr(mod, cname).parse(*args)
                        except Exception as e:
                            res.mismatch({'g': peg.g_to_dict(diff.reachable_subgrammar(g, cname)), 'entry': cname,
                                          'text': '', 'pos': 0, 'fullparse': True, 'args': list(args)})
                            continue
                        params = rd[cname][2]
                        env = {p: peg.Bind(a, None) for p, a in zip(params, args)}
                        self.run_entry(res, g, mod, desc, cname + repr(args), cname, fn, short[::2], [], shiftable, env,
                                       args=list(args))
            if named:
                sut.forget(named)
        try:
            prop()
        except runner.StopTask:
            pass
        return res

    def run_entry(self, res, g, mod, desc, label, rname, fn, short, len4, shiftable, env, args=None):
        hangs = 0
        for t in short + len4:
            positions = range(len(t) + 1) if len(t) <= 3 else (0,)
            for pos in positions:
                it = peg.Interp(g, t)
                try:
                    r = it.call_rule(it.rules[rname], pos, dict(env))
                except (peg.StepLimit, peg.RefError, RecursionError):
                    res.hist['ref_outside_domain'] += 1
                    continue
                for fullparse in ((True, False) if len(t) <= 3 else (True,)):
                    exp = expected_at(r, t, pos, fullparse)
                    got = sut.run(mod, None, t, pos, fullparse, budget=diff.QUICK_BUDGET, fn=fn)
                    res.evals += 1
                    res.hist['out_' + exp[0]] += 1
                    zero = r is not None and r[1] == pos
                    if pos > 0 or len(t) == 0 or zero or exp[0] == 'PARTIAL':
                        res.nontrivial.add(h64(desc, label, t, pos, fullparse))
                        if len(res.samples) < 2 and pos > 0 and exp[0] != 'FAIL':
                            res.sample({'grammar': desc[-300:], 'entry': label, 'input': repr(t), 'pos': pos,
                                        'fullparse': fullparse, 'expected': list(exp)})
                    bad = not sut.agrees(exp, got)
                    if not bad and got[0] == 'FAIL' and shiftable and not (pos <= got[1] <= len(t)):
                        bad = True
                    if not bad and shiftable and pos > 0 and fullparse:
                        got0 = sut.run(mod, None, t[pos:], 0, True, budget=diff.QUICK_BUDGET, fn=fn)
                        res.evals += 1
                        res.hist['shift_compared'] += 1
                        if not shift_equal(got, got0, pos, len(t)):
                            bad = True
                    if bad:
                        c = {'g': peg.g_to_dict(diff.reachable_subgrammar(g, rname) if label is not None else g),
                             'entry': None if label is None else rname, 'text': t, 'pos': pos, 'fullparse': fullparse}
                        if args is not None:
                            c['args'] = args
                        res.mismatch(c)
                        if got[0] == 'HANG':
                            hangs += 1
                            if hangs >= 2:
                                return

    def replay(self, case):
        g = peg.g_from_dict(case['g'])
        if g.header:
            g = g.copy(header=sut.fresh_name('vfc08r_'))
        desc = peg.render(g)
        mod, err = sut.compile_grammar(desc)
        if mod is None:
            return {'bucket': 'compile', 'got': list(err), 'grammar': desc}
        t, pos, fullparse = case['text'], case['pos'], case['fullparse']
        name = case['entry']
        rname = g.start_name() if name is None else name
        env = {}
        try:
            if case.get('args') is not None:
                fn = getattr(mod, name).parse(*case['args'])
                env = {p: peg.Bind(a, None) for p, a in zip(g.ruledict()[name][2], case['args'])}
            else:
                fn = sut.entry(mod, name)
        except Exception as e:
            return {'bucket': 'entry:' + type(e).__name__, 'detail': str(e)[:200], 'grammar': desc}
        it = peg.Interp(g, t)
        try:
            r = it.call_rule(it.rules[rname], pos, env)
        except (peg.StepLimit, peg.RefError, RecursionError, KeyError):
            return None
        exp = expected_at(r, t, pos, fullparse)
        got = diff.run_confirmed(mod, None, t, fn=fn, pos=pos, fullparse=fullparse)
        tag = lambda o: o[0] if o[0] != 'EXC' else 'EXC:' + o[1]
        if not sut.agrees(exp, got):
            return {'bucket': '%s->%s' % (exp[0], tag(got)), 'expected': list(exp), 'got': list(got), 'grammar': desc,
                    'entry': name, 'input': repr(t), 'pos': pos, 'fullparse': fullparse, 'args': case.get('args')}
        if got[0] == 'FAIL' and lookbehind_free(g) and not (pos <= got[1] <= len(t)):
            return {'bucket': 'error-index-out-of-range', 'got': list(got), 'grammar': desc, 'input': repr(t), 'pos': pos}
        if lookbehind_free(g) and pos > 0 and fullparse:
            got0 = diff.run_confirmed(mod, None, t[pos:], fn=fn)
            if not shift_equal(got, got0, pos, len(t)):
                return {'bucket': 'shift:%s-vs-%s' % (tag(got), tag(got0)), 'at_pos': list(got), 'suffix_at_0': list(got0),
                        'grammar': desc, 'entry': name, 'input': repr(t), 'pos': pos}
        return None

    def shrink(self, case, still_fails, deadline):
        def ok(c):
            g = peg.g_from_dict(c['g'])
            if c['entry'] is not None and c['entry'] not in g.ruledict():
                return False
            if c['entry'] is None and not g.start_name():
                return False
            if not (0 <= c['pos'] <= len(c['text'])):
                return False
            return diff.wellformed(g) and still_fails(c)
        best = shrink.shrink_case(case, ok, deadline)
        # lower pos
        while best['pos'] > 0:
            c = dict(best)
            c['pos'] -= 1
            if ok(c):
                best = c
            else:
                break
        return best

    def describe(self, case):
        g = peg.g_from_dict(case['g'])
        return {'grammar': peg.render(g), 'entry': case['entry'], 'input': repr(case.get('text')), 'pos': case['pos'],
                'fullparse': case['fullparse'], 'args': case.get('args')}

    def selftest(self):
        from selftest import test_peg
        test_peg.run()


def shift_equal(got, got0, k, n):
    """parse(text, k) vs parse(text[k:], 0): same outcome with indices shifted by k."""
    if got[0] != got0[0]:
        return False
    if got[0] == 'OK':
        return got[1] == got0[1]
    if got[0] == 'PARTIAL':
        return got[1] == got0[1] and got[2] == got0[2] + k
    if got[0] == 'FAIL':
        return got[1] == got0[1] + k
    return got[:2] == got0[:2]


if __name__ == '__main__':
    sys.exit(runner.main(C08()))
