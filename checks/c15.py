"""C15 - visit and traverse enumerate the whole tree, once, in order.
Oracle: independent reference generators, compared event by event.  DESIGN.md 4/C15."""
import sys

from vlib import runner, sut, trees
from vlib.runner import Check, Result, h64
from checks.c14 import shrink_specs


def ref_visit(root):
    out = []
    seen = set()
    stack = [root]
    while stack:
        x = stack.pop()
        if trees.is_obj(x):
            if id(x) in seen:
                continue
            seen.add(id(x))
            out.append(x)
            stack.extend(getattr(x, f) for f in reversed(x._fields))
        elif isinstance(x, (list, tuple)):
            stack.extend(reversed(x))
        elif isinstance(x, dict):
            stack.extend(reversed(list(x.values())))
    return out


def ref_traverse(root):
    """[(parent, field, child, finished)] - every occurrence gets both events; a shared
    object/container is expanded at its first occurrence only."""
    out = []
    expanded = set()
    stack = [(None, None, root, False)]
    while stack:
        parent, field, child, fin = stack.pop()
        out.append((parent, field, child, fin))
        if fin:
            continue
        stack.append((parent, field, child, True))
        if trees.is_obj(child):
            items = [(f, getattr(child, f)) for f in child._fields]
        elif isinstance(child, (list, tuple)):
            items = list(enumerate(child))
        elif isinstance(child, dict):
            items = list(child.items())
        else:
            continue
        if id(child) in expanded:
            continue
        expanded.add(id(child))
        for f, c in reversed(items):
            stack.append((child, f, c, False))
    return out


def check_tree(mod, root):
    got = list(mod.visit(root))
    want = ref_visit(root)
    if len(got) != len(want) or any(a is not b for a, b in zip(got, want)):
        return ('visit-order-or-count', 'got %d want %d' % (len(got), len(want)))
    ev = list(mod.traverse(root))
    wt = ref_traverse(root)
    if len(ev) != len(wt):
        return ('traverse-event-count', 'got %d want %d' % (len(ev), len(wt)))
    depth = 0
    for i, (e, w) in enumerate(zip(ev, wt)):
        if e.parent is not w[0] or e.child is not w[2] or e.is_finished != w[3]:
            return ('traverse-event-mismatch', 'event %d' % i)
        fe, fw = e.field, w[1]
        if not (fe is fw or (type(fe) is type(fw) and fe == fw)):
            return ('traverse-field', 'event %d: %r vs %r' % (i, fe, fw))
        depth += -1 if e.is_finished else 1
        if depth < 0:
            return ('traverse-not-nested', 'event %d' % i)
    if depth != 0:
        return ('traverse-not-nested', 'unbalanced')
    return None


def deep_chain(mod, kind, n):
    v = 'x'
    if kind == 'obj':
        for _ in range(n):
            v = mod.K1(v)
    elif kind == 'list':
        for _ in range(n):
            v = [v, None]
    elif kind == 'mixed':
        for i in range(n):
            v = mod.K2(None, [v]) if i % 2 else {'k': (v, 1)}
    elif kind == 'infix':
        for _ in range(n):
            v = mod.Infix(v, '+', 1)
    return v


def repeated_leaf_or_shared(spec):
    if trees.has_kind(spec, ('share',)):
        return True
    seen = set()
    stack = [spec]
    while stack:
        s = stack.pop()
        if s[0] == 'leaf':
            key = (type(s[1]).__name__, repr(s[1]))
            if key in seen:
                return True
            seen.add(key)
        elif s[0] == 'obj':
            stack.extend(s[2])
        elif s[0] in ('list', 'tuple'):
            stack.extend(s[1])
        elif s[0] == 'dict':
            stack.extend(c for _, c in s[1])
        elif s[0] == 'infix':
            stack.extend([s[1], s[3]])
        elif s[0] == 'prefix':
            stack.append(s[2])
        elif s[0] == 'postfix':
            stack.append(s[1])
    return False


class C15(Check):
    id = 'C15'
    technique = 'PBT: hypothesis recursive trees with repeated identical leaves and shared nodes + deep chains; reference visit/traverse compared event by event'
    rule = ('cases = result trees from a recursive strategy (objects of arity 0-3, Infix/Prefix/Postfix, lists, tuples, '
            'dicts; leaves drawn from a small pool so that the same None / small int / interned string object occurs '
            'several times; shared sub-objects and containers), trees returned by parse, and chains of 10^4 (quick) / '
            '10^5 (thorough) nested objects/lists/dicts/tuples built iteratively. visit and traverse are compared event by '
            'event (identity of parent and child, equality of field, finished flag) with independent reference '
            'generators; bracket nesting of traverse events is checked. Non-trivial iff the tree contains a repeated '
            'identical leaf value or a shared node; distinct by spec.')
    assumptions = ['reference order: depth-first, left to right, shared nodes expanded at first occurrence only (as the statement says)']
    budget_quick = 120
    budget_thorough = 1200

    def tasks(self, tier, seed):
        n = 15 if tier == 'quick' else 60
        per = 2500 if tier == 'quick' else 20000
        t = [('hyp', seed * 1000003 + s, per) for s in range(n)]
        for kind in ('obj', 'list', 'mixed', 'infix'):
            t.append(('deep', kind, 10000 if tier == 'quick' else 100000))
        return t

    def run_task(self, task):
        res = Result()
        mod = trees.get_module()
        if task[0] == 'deep':
            _, kind, n = task
            root = deep_chain(mod, kind, n)
            res.evals += 1
            res.nontrivial.add(h64('deep', kind, n))
            try:
                bad = check_tree(mod, root)
            except RecursionError:
                bad = ('recursion-error', kind)
            if bad:
                res.mismatch({'deep': kind, 'n': n})
            res.sample({'deep_chain': kind, 'depth': n})
            return res
        from hypothesis import given, settings, seed, HealthCheck, Phase, strategies as st
        _, s, n = task

        @seed(s)
        @settings(max_examples=n, database=None, deadline=None, phases=[Phase.generate],
                  suppress_health_check=list(HealthCheck), report_multiple_bugs=False)
        @given(st.booleans(), st.data())
        def prop(parsed, data):
            spec = data.draw(trees.spec_strategy(max_leaves=16, parseable=parsed))
            case = {'spec': spec, 'parsed': parsed}
            if runner.over_budget(res):
                return
            root = mod.parse(trees.to_text(spec)) if parsed else trees.build(spec, mod)
            res.evals += 1
            bad = check_tree(mod, root)
            if repeated_leaf_or_shared(spec):
                res.nontrivial.add(h64(repr(case)))
                res.hist['nontrivial'] += 1
                if len(res.samples) < 1 and not parsed:
                    res.sample({'tree': trees.safe_repr(root)[:300], 'events': len(list(mod.traverse(root)))})
            res.hist['parsed' if parsed else 'constructed'] += 1
            if bad:
                res.mismatch(case)
        try:
            prop()
        except runner.StopTask:
            pass
        return res

    def replay(self, case):
        mod = trees.get_module()
        if 'deep' in case:
            try:
                bad = check_tree(mod, deep_chain(mod, case['deep'], case['n']))
            except RecursionError:
                bad = ('recursion-error', case['deep'])
            return {'bucket': bad[0], 'detail': bad[1]} if bad else None
        spec = case['spec']
        root = mod.parse(trees.to_text(spec)) if case.get('parsed') else trees.build(spec, mod)
        bad = check_tree(mod, root)
        if bad is None:
            return None
        return {'bucket': bad[0], 'detail': bad[1], 'tree': trees.safe_repr(root)[:500]}

    def shrink(self, case, still_fails, deadline):
        if 'deep' in case:
            n = case['n']
            while n > 1 and still_fails({'deep': case['deep'], 'n': n // 2}):
                n //= 2
            return {'deep': case['deep'], 'n': n}
        return shrink_specs(case, still_fails, deadline, ('spec',))

    def describe(self, case):
        if 'deep' in case:
            return dict(case)
        mod = trees.get_module()
        return {'tree': trees.safe_repr(trees.build(case['spec'], mod))[:800], 'parsed': case.get('parsed')}


if __name__ == '__main__':
    sys.exit(runner.main(C15()))
