#!/usr/bin/env python3
"""Regenerates MANIFEST.json from the table below (keeps it valid at all times)."""
import json, os, sys
ROOT = os.path.dirname(os.path.dirname(os.path.abspath(__file__)))
props = [json.loads(l) for l in open(os.path.join(ROOT, 'properties.jsonl'))]
ids = [p['id'] for p in props]

# id -> (technique, level text, level note)
CLAIMED = {
 'C02': ('PBT: hypothesis-generated operator tables x exhaustive short + structured token sequences; precedence-climbing reference and reference-free tree validity predicate',
         'Generated-input search: ~1000 (quick) tables with colliding spellings, all row kinds, four operand kinds, optional ignore and mixfix rows are run on every token sequence up to a per-table length and on structured/truncated sentences up to 12 tokens, as the whole rule and inlined in three exposing contexts; outcomes (tree and extent) are compared with a scanner + precedence-climbing reference, and sourcer\'s own tree is checked to read back in order to exactly the consumed text and to respect precedence/associativity along its spines.',
         'Trusts vlib/optab.py (self-tested on hand cases; deliberately not shunting-yard); spellings unique within a kind; tables <= 5 rows (+2 mixfix).'),
 'C03': ('PBT: exhaustive bounds x options x contexts matrix on all short inputs; reference interpreter + direct bound/trailer invariants; hypothesis nesting',
         'Generated-input search: the full matrix {e{n},e{m,n},e{m,},e{,n}: 0<=m<=n<=3} x 5 element kinds x 5 ways of supplying the bound (literal, let, inline python, template parameter, class field) x 9 enclosing contexts and Sep x 12 option combinations x elements x separators x contexts is enumerated on all inputs of length <=4/5 over {a,b,",",Z} and compared with the reference interpreter; bounds and trailer invariants are also checked directly on the output; the 4 invalid Sep option combinations must be rejected. Hypothesis adds nested combinations.',
         'Trusts vlib/peg.py (Appendix A); bounds 0..3, incl. contradictory symbolic bounds (m > n at parse time must fail).'),
 'C01': ('PBT: differential against a reference PEG interpreter (exhaustive shapes x all short inputs + hypothesis grammars)',
         'Generated-input search: every depth<=1 core expression in 13 exposing parent contexts, a seeded stride through all depth-2 shapes and hypothesis multi-rule grammars (text+bytes) are compared on all short inputs with an independent naive PEG interpreter; bounds stated in evidence. Finds wrong static flags / missing restores; proves nothing beyond the explored bounds.',
         'Trusts vlib/peg.py reference semantics (DESIGN Appendix A, self-tested on hand cases); alphabet {a,b,Z}, inputs <= 5 (9 sampled), depth <= 5.'),
 'C04': ('PBT: hypothesis core grammars + 1-3 ignore declarations (named/anonymous, any position, class start rule, text+bytes); reference interpreter with documented skip placement + lengthen-run metamorphic relation',
         'Generated-input search: core grammars of all C01 forms with ignore declarations drawn from six non-nullable patterns (regex, literal, repetition, sequence), in every position, with the start rule spelled start/Start/START or being a class, are run through the start rule, module-level parse and non-start rules on all short inputs over token + ignorable characters and random longer ones. Oracle 1: reference interpreter that skips before the start rule and after every successful non-empty literal (also inside lookahead and ignore rules) and nowhere else. Oracle 2: lengthening a run the reference skipped leaves the parsed value unchanged.',
         'Ignore patterns non-nullable with distinct first characters; oracle 2 only for Backtrack-free grammars.'),
 'C05': ('PBT: hypothesis grammars with let / class members / parameters / where / |> / <| / symbolic counts; reference interpreter with functional environments',
         'Generated-input search: grammars from a scope-aware recursive generator (generated rules, classes with plain/let/pass/requires members, generated templates, a template library) plus rule families built to rebind one name several times within one parse (abandoned alternative, iterations, recursive and sibling invocations, lookahead, class recursion) are run through every parameterless rule and class on all inputs of length <= 4 over {a,b,1,2} and random longer ones, and compared with a reference interpreter whose environments are immutable dicts (an abandoned branch cannot leak).',
         'Inline Python from a closed language the oracle can evaluate; shadowing incl. shadow-then-read is in the domain since F24/F30 were repaired.'),
 'C06': ('PBT: hypothesis template/call-site generator (text+bytes, named+unnamed); reference interpreter with thunks + AST-level expansion compiled by sourcer',
         'Generated-input search: a 14-template library (value, parser, mixed, recursive, forwarding, capturing, class templates), generated templates and call sites with literal, rule-name, compound (capturing 0-2 call-site names), inline-Python, earlier-result (str/int/list/dict/tuple/None/instance), positional, keyword and nested arguments, plus families instantiating one template twice at one position with swapped / nested-different arguments; each grammar with and without a grammar header. Oracle 1: reference interpreter (no memo, thunks closed over the caller environment). Oracle 2: every non-recursive call expanded on the AST (alpha-renamed body, parser arguments substituted, value arguments let-bound, class templates specialised) and compiled by sourcer itself must agree.',
         'F11 and F12 repaired in /repo (witnesses replayed as regressions); inputs <= 4 exhaustive over {a,b,1,2} + random <= 8.'),
 'C07': ('PBT: hypothesis grammars with dense references + five exponential/eviction families; rule bodies instrumented through the DSL (Expect(/(?s).*/) |> note); invariants over the (rule, position) call log and identity of memoised results',
         'Generated-input search: every rule and class body gets a DSL-level probe that logs (rule, position) through a Python-section callback (public API only); for hypothesis core grammars (text/bytes, optional ignore, classes, rules referenced from several alternatives, lookaheads and repetitions) on all inputs of length <= 4 plus longer ones, and for families whose un-memoised evaluation is exponential or that need an old memo entry again (inputs up to 1000 characters), no (rule, position) may be logged twice, the total is bounded by rules x (len+1), a fresh list/instance referenced twice at one position must be the identical object, and the instrumented parser must still agree with the reference on the outcome. Counts only, never wall-clock time.',
         'Start rule excluded from the per-position invariant when ignore patterns are declared (probe position is after the leading skip).'),
 'C08': ('PBT: hypothesis grammars (core text/bytes with/without ignore, rich with classes/templates; named and unnamed) x every rule/class entry x all short inputs x every pos x both fullparse values; reference interpreter at pos + shift relation',
         'Generated-input search: module-level parse, every parameterless rule and class, and parameterised classes through C.parse(args)(text) are called on all inputs of length <= 3 (incl. empty) at every pos with fullparse True and False (length 4 at pos 0); the outcome class, value, partial_result and last_position.index are compared with the reference evaluated at pos, any other exception is a violation, and for lookbehind/anchor-free grammars parse(text, k) must equal parse(text[k:], 0) with indices shifted by k.',
         'Parameterised rules are not entry points (no way to pass arguments); cases whose inline Python the reference cannot evaluate are skipped and counted.'),
 'C09': ('PBT: exhaustive line-length x error-column sweep + hypothesis multi-line texts through generated grammars; validity predicate (independent line/column, caret and excerpt checks)',
         'Generated-input search: (i) complete sweep of line length 1..260 x every error column x preceding/following text shapes through three error paths (ParseError via sequence and via choice farthest-failure, PartialParseError); (ii) hypothesis core grammars (text with an ignore pattern for blanks/newlines, and bytes) on multi-line texts with lines up to 400 characters and pos >= 0. Each raised error is validated: index bounds, not beyond the foreign character, line/column recomputed, None/None iff ParseError at end of input, message numbers, two-line excerpt, caret under text[index], excerpt from the error line.',
         'Line breaks are \\n only; part (ii) grammars are lookbehind-free.'),
 'C10': ('PBT: hypothesis class-heavy grammars with ignore, multi-line inputs, pos > 0; spans recorded by the reference interpreter walked in parallel, independent line/column, containment',
         'Generated-input search: rich grammars (generated classes, class templates, class recursion, classes under repetition/option/lookahead/choice/templates) and core grammars wrapped in classes (text and bytes), all with an ignore pattern for blanks and newlines, on token strings with blanks/newlines inserted everywhere, at pos 0 and behind a junk prefix; for every instance that consumed input start.index, end.index, line and column are compared with the span recorded by the reference (also in partial_result), plus type well-formedness (never a raw tuple) and child-inside-parent on sourcer\'s own data.',
         'Offsets holding a line break are excepted from line/column (as in the statement); containment only without lookahead/Backtrack.'),
 'C11': ('PBT: hypothesis union generator (rich, core+ignore text/bytes, operator tables, deep nesting); differential across 9 production variants incl. emitted source imported by a separate -I -S interpreter and an extension executed next to its parent',
         'Generated-input search: each description is compiled unnamed, unnamed again, with include_source, named, named with include_source; the emitted source of the unnamed and named variants is saved and imported by a separate interpreter started with -I -S whose sys.path (asserted) holds only the standard library and the temp directory; a grammar extending the named one runs in memory and as emitted source next to its parent. All variants must agree on outcome class, value and position for module-level parse and up to 4 further entries on all inputs of length <= 3 plus longer ones; the stand-alone process must not have imported outsourcer/sourcer.',
         'Values compared by canonical structure; one stand-alone interpreter serves a batch of descriptions.'),
 'C12': ('PBT/differential: 3-generation bootstrap history (gen1 accepts grammar.txt; gen1 installed in a scratch copy regenerates, in a separate process under another hash seed, to exactly its own text) + shipped vs regenerated parser on repository corpus, generated descriptions in all spellings, hypothesis-corrupted descriptions and coverage-guided atheris/libFuzzer differential fuzzing',
         'Generated-input search: the shipped sourcer/parser.py (gen0) and the parser compiled from grammar.txt by the current tree (gen1) must give the same repr(tree), or the same error class at the same index, on every description found in the repository at run time (tests, README, docs, examples, grammar.txt: 61 on the pinned tree), on descriptions rendered by the generators in random spellings/layouts (rich, core, operator tables, headers with extends) and on 1-3-edit corruptions of those (delete, insert punctuation/keywords, transpose, truncate, swap lines, duplicate/drop spans); plus the bootstrap history gen0 -> gen1 -> gen2 with gen1 text == gen2 text.',
         'gen0 vs gen1 is behavioural, not textual. An atheris/libFuzzer target (tooling venv, 25 s quick / 8 x 7 min thorough) adds coverage-guided search with the same oracle inside. Limit: an extension of the accepted language by a brand-new token (a mutant accepting `let x <- a in b`) was found neither by the corruptions nor by 1.3 million coverage-guided executions.'),
 'C13': ('PBT (stateful): hypothesis RuleBasedStateMachine over create-base / derive / parse histories (chains <= 3, siblings, dotted names, ignore in base and/or derived); oracle = AST-level flattening compiled stand-alone + reference interpreter; untouched-parent probe invariant',
         'Generated-history search: a rule-based state machine creates named base grammars, derives from any existing module (each rule inherited, overridden, or overridden using super; new rules; own ignore declarations) and parses through any module and any visible parameterless rule/class in any order. Every parse must equal the parse through the flattened stand-alone grammar (late binding = most-derived definition, super.R = private copy of the parent level\'s R, ignore declarations united) compiled by sourcer, and the reference interpreter on it; after every operation every existing module must still answer 15 probe inputs as when it was created.',
         'Derived grammars add ignore patterns only when an ancestor has some; inherited entry points that reach an override are excluded (known finding F13e, witness replayed).'),
 'C14': ('PBT: hypothesis recursive result trees (shared nodes, containers, same-field classes, parsed trees with metadata); independent structural equality oracle, snapshots, round-trips',
         'Generated-input search over triples of result trees: ==/!= against an independent structural predicate (incl. classes with identical field names, dicts in different insertion order), symmetry, transitivity, hash consistency (also after _replace), _asdict order/identity, _replace (new object, only given fields, metadata kept, original untouched), deepcopy (equal, no shared mutable node, same metadata), pickle round trip for a named grammar, eval(repr).',
         'NaN excluded; fields not mutated after hashing; trees <= ~16 leaves.'),
 'C15': ('PBT: hypothesis recursive trees with repeated identical leaves and shared nodes + 10^4/10^5-deep chains; reference visit/traverse generators compared event by event',
         'Generated-input search: visit order/once and every traverse event (identity of parent and child, field, finished flag, bracket nesting) compared with independent iterative reference generators on constructed and parsed trees; deep chains of objects, lists, dict/tuple mixes and Infix nodes must not hit the recursion limit.',
         'Reference order taken from the statement (depth-first, left to right, shared nodes expanded once).'),
 'C16': ('PBT: hypothesis trees x callback lists; independent bottom-up rewrite producing result, call log and expected metadata',
         'Generated-input search: for trees with a unique position marker on every node (or real spans from parse) and 0-3 callbacks (identity, log, replace class by other class / string / list, wrap) the real call log, result, per-node metadata, tuple/dict pass-through and the untouched input are compared with an independent bottom-up rewrite.',
         'Callbacks return their argument or fresh values (returning an existing descendant is ambiguous and excluded).'),
 'C17': ('PBT: exhaustive sweep inner x transparent wrapper x depth (crossing every block-budget threshold) x ignore x named + 8 deep-input recursion families; closed-form expected values, reference interpreter, failing inputs',
         'Enumerated search: 7 inner expressions (literal, rule reference, template call, class, template parameter, let-bound name, symbolic count) x 12 wrapper kinds (incl. seeded mixtures) x depth 1..40 every and 45..120 (quick) / 1..130 every (thorough) x with/without ignore x named/unnamed; each case must compile, return the closed-form wrapped value (reference interpreter as second voice up to depth 40) and reject a failing input with ParseError/PartialParseError; whether code was split into helper functions is measured from include_source. Deep inputs: plain rule, class, templates (value and parser argument), ignore, named, operator-table mixfix row, right-recursive list at depth 10^4 (quick) / 10^5 (thorough), results checked iteratively, no RecursionError.',
         'F28 (bound names inside split helpers) and F29 (Grammar() recursion at ~240 AST levels) excluded, witnesses replayed.'),
 'C18': ('PBT (stateful): hypothesis RuleBasedStateMachine over parse / raising-callback / nested-parse / Grammar() histories on three modules; harness-owned thread schedules at callback granularity; free-running stress; model = pristine module',
         'Generated-history search: a rule-based state machine issues parse calls (any entry, pos, fullparse), parses whose inline-Python callback raises, parses whose callback starts a nested parse on the same or another module (dropped, embedded as data, or embedding the nested result objects), and Grammar() of an extension, of another description under an existing name, and of an unrelated grammar; hypothesis-drawn schedules interleave 2-3 threaded parses at every callback point with semaphores owned by the check; a free-running 16-thread stress runs at switch interval 1e-6. Every outcome (value, every span with line/column, error position and message) must equal the same call on a pristine module; texts include same-length variants so that state keyed by length collides.',
         'Schedules are controlled at callback points only; finer preemption only probabilistically (stress). A mismatch observed against the model that does not reproduce in a fresh replay is still reported (isolation failures may depend on ids/hashes/timing).'),
 'C19': ('PBT: one AST rendered twice (canonical fully parenthesised vs. random constructor/operator spellings, signs, separators, comments, line breaks, quotes, MINIMAL parentheses, bare start expression); differential between the renderings + reference interpreter on the AST',
         'Generated-input search: rich, core and grouping-focused ASTs (all binary operators of every precedence level mixed with postfix forms) are rendered canonically and with every documented alternative spelling and layout drawn at random, including minimal parenthesisation computed from the precedence table of the statement; both descriptions must compile and agree on every entry and all inputs of length <= 4 plus longer ones, and the reference interpreter evaluated on the AST must agree too, so the two renderings cannot agree on a wrong grouping.',
         'Constructor forms never get bare inline-Python operands (documented exception); let is always parenthesised.'),
 'C20': ('PBT: exhaustive role x suspicious-name matrix (names harvested from the generated module itself, temporaries, builtins, runtime globals, constructor names, DSL words) + hypothesis random grammars x random injective renamings; rename relation on the AST (inline Python renamed by tokenising)',
         'Enumerated + generated search: each of 13 name roles of a feature-rich grammar is renamed to each of ~500 suspicious identifiers - every identifier that occurs in the module generated for that grammar (so new temporaries/helpers are tried automatically), every temporary base with suffix 0-6, every builtin, every runtime global, every sourcer.expressions attribute, DSL words - and outcomes on 10 inputs must equal the unrenamed ones up to the renaming; the pairs that fail on the pinned tree are the known findings F21a-g (committed pair list) and every other failing pair is a violation. Hypothesis renames ALL names of random rich grammars at once into neutral and look-alike names (named and unnamed modules).',
         'The property does not hold in seven families on the pinned tree (F21a-g, recorded, witnesses replayed); names start with a letter, are not keywords nor documented API names.'),
}

checks = []
for i in ids:
    if i not in CLAIMED:
        continue
    tech, text, note = CLAIMED[i]
    checks.append({
        'property_id': i,
        'quick_cmd': './check %s --tier quick' % i,
        'thorough_cmd': './check %s --tier thorough' % i,
        'evidence_file': 'evidence/%s.json' % i,
        'replay_cmd_template': './check %s --replay {path}' % i,
        'engine': 'vlib',
        'level_claimed': {'category': 'exploration', 'text': text, 'design_ref': 'DESIGN.md section 4/%s' % i},
        'level_note': note,
        'technique': tech,
    })
na = [{'property_id': i, 'reason': 'check not built yet (build phase in progress); planned per DESIGN.md section 4/%s' % i}
      for i in ids if i not in CLAIMED]
hooks_commits = []
hc = os.path.join(ROOT, 'tools', 'hook_commits.txt')
if os.path.exists(hc):
    hooks_commits = [l.split()[0] for l in open(hc) if l.strip()]
m = {
 'version': 1,
 'setup_cmd': '/venv/bin/python -c "import hypothesis" 2>/dev/null || /venv/bin/pip install --no-index --find-links /opt/veriftools/wheels hypothesis; cd /verif && PYTHONPATH=/verif /venv/bin/python -m selftest.all',
 'hooks': {
   'guard': 'JVS_SOURCER_VERIF',
   'enable': 'no source hooks are needed: checks observe through the public API and inline Python in generated grammars; the variable is exported by ./check but nothing in /repo reads it',
   'baseline_off_cmd': 'cd /repo && /venv/bin/python -m pytest -ra -q -p no:cacheprovider --timeout=900 --continue-on-collection-errors',
   'source_commits': hooks_commits,
   'add_only': True,
 },
 'engines': [{'name': 'vlib', 'path': 'vlib/', 'serves_properties': [c['property_id'] for c in checks],
              'kind_free_text': 'hypothesis 6.168 + exhaustive enumerators + reference interpreters, 16-way sharded runner'}],
 'checks': checks,
 'not_applicable': na,
 'notes': 'All checks: ./check <id> --tier quick|thorough ; VERIF_SEED, VERIF_JOBS, VERIF_REPO honoured. Known findings and fixed defects: known_findings.json.',
}
json.dump(m, open(os.path.join(ROOT, 'MANIFEST.json'), 'w'), indent=1)
print('claimed', len(checks), 'not_applicable', len(na))
