"""Self-test of the reference interpreter on hand-computed cases (exit 2 on failure)."""
from vlib import peg


CASES = [
    # (expr, text, expected (value, end) | None)
    (('choice', [('lit', 'a'), ('lit', 'ab')]), 'ab', ('a', 1)),
    (('choice', [('seq', [('lit', 'a'), ('lit', 'c')]), ('lit', 'ab')]), 'ab', ('ab', 2)),
    (('rep', ('lit', 'a'), 2, 2), 'aaa', (['a', 'a'], 2)),
    (('choice', [('rep', ('lit', 'a'), 2, 2), ('lit', 'ab')]), 'ab', ('ab', 2)),
    (('rep', ('lit', 'a'), 2, None), 'a', None),
    (('seq', [('opt', ('seq', [('lit', 'a'), ('lit', 'b')])), ('lit', 'a')]), 'a', ([None, 'a'], 1)),
    (('seq', [('expect', ('lit', 'a')), ('rx', 'a+')]), 'aa', (['a', 'aa'], 2)),
    (('seq', [('expectnot', ('lit', 'b')), ('rx', '[ab]')]), 'b', None),
    (('longest', [('lit', 'a'), ('rx', 'a+'), ('lit', 'aa')]), 'aa', ('aa', 2)),
    (('longest', [('lit', 'a'), ('rx', 'a')]), 'a', ('a', 1)),
    (('skip', [('lit', 'a'), ('lit', 'b')]), 'abbaZ', (None, 4)),
    (('seq', [('lit', 'a'), ('backtrack', 1), ('lit', 'a')]), 'a', (['a', None, 'a'], 1)),
    (('backtrack', 1), 'a', None),
    (('seq', []), '', ([], 0)),
    (('sep', ('lit', 'a'), ('lit', ','), False, False, True, False), 'a,a,', (['a', 'a'], 3)),
    (('sep', ('lit', 'a'), ('lit', ','), False, True, True, False), 'a,a,', (['a', 'a'], 4)),
    (('sep', ('lit', 'a'), ('lit', ','), True, False, True, False), 'a,a,', (['a', ',', 'a'], 3)),
    (('sep', ('lit', 'a'), ('lit', ','), True, True, True, False), 'a,a,', (['a', ',', 'a', ','], 4)),
    (('sep', ('lit', 'a'), ('lit', ','), False, False, False, False), '', None),
    (('sep', ('lit', 'a'), ('lit', ','), False, True, True, True), 'a', None),
    (('sep', ('lit', 'a'), ('lit', ','), False, True, True, True), '', ([], 0)),
    (('sep', ('lit', 'a'), ('lit', ','), False, True, False, True), 'a,', (['a'], 2)),
    (('ci', 'aB'), 'Ab', ('Ab', 2)),
    (('left', ('lit', 'a'), ('lit', 'b')), 'ab', ('a', 2)),
    (('right', ('lit', 'a'), ('lit', 'b')), 'ab', ('b', 2)),
    (('let', 'x', ('rx', 'a+'), ('where', ('rx', 'b+'), ('py', 'lambda v: len(v) == len(x)'))), 'aabb', ('bb', 4)),
    (('let', 'x', ('rx', 'a+'), ('where', ('rx', 'b+'), ('py', 'lambda v: len(v) == len(x)'))), 'aab', None),
    (('apply', ('rx', 'a+'), ('py', 'len')), 'aaa', (3, 3)),
    (('applyl', ('py', 'len'), ('rx', 'a+')), 'aaa', (3, 3)),
    (('let', 'n', ('py', '2'), ('rep', ('lit', 'a'), 'n', 'n')), 'aaa', (['a', 'a'], 2)),
]


def run():
    for e, t, want in CASES:
        g = peg.G([('rule', 'start', None, e)])
        got = peg.Interp(g, t).run_rule('start')
        if got != want:
            raise AssertionError('reference self-test failed: %r on %r: got %r want %r' % (e, t, got, want))
    # ignore: skipped before the start rule and after literals only
    g = peg.G([('rule', 'start', None, ('seq', [('lit', 'a'), ('lit', ''), ('lit', 'b')]))],
              ignores=[(None, ('rx', ' +'))])
    assert peg.Interp(g, ' a b ').run_rule('start') == (['a', '', 'b'], 5)
    g = peg.G([('rule', 'start', None, ('ref', 'A')), ('rule', 'A', None, ('lit', 'a'))],
              ignores=[(None, ('rx', ' +'))])
    assert peg.Interp(g, ' a').run_rule('A') is None          # no leading skip through A
    assert peg.Interp(g, ' a ').run_rule('start') == ('a', 3)
    # class
    g = peg.G([('class', 'P', None, [('field', 'a', ('lit', 'a')), ('let', 'b', ('lit', 'b')),
                                      ('pass', None, ('lit', 'c')), ('requires', None, ('py', 'b == "b"')),
                                      ('field', 'd', ('py', '(a, b)'))])])
    v, end = peg.Interp(g, 'abc').run_rule('P')
    assert end == 3 and v.cls == 'P' and v.fields == [('a', 'a'), ('d', ('a', 'b'))] and v.span == (0, 3)
    # template
    g = peg.G([('rule', 'T', ['x', 'y'], ('seq', [('ref', 'x'), ('py', 'y'), ('ref', 'x')])),
               ('rule', 'start', None, ('call', 'T', [('choice', [('lit', 'a'), ('lit', 'b')])], [('y', ('py', '7'))]))])
    assert peg.Interp(g, 'ab').run_rule('start') == (['a', 7, 'b'], 2)
    assert peg.canon([1, 'a', None, (True, 2.5), {'k': b'x'}]) == "[i1,s'a',N,(T,f2.5),{s'k':y" + repr(b'x') + "}]"


if __name__ == '__main__':
    run()
    print('ok')
