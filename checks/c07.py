"""C07 - packrat guarantee: a rule is evaluated at most once per position.
Observation through the public DSL only: every rule body starts with
  Expect(/(?s).*/) |> `lambda rest: note(<rule>, len(rest))`
so a Python-section callback logs (rule, position).  Oracle: invariants over the call log
(counts, never wall-clock time).  DESIGN.md 4/C07."""
import sys

from vlib import runner, peg, gens, gens_rich, sut, shrink, diff
from vlib.runner import Check, Result, h64

PY = ('LOG = []\ndef note(rule, restlen):\n    LOG.append((rule, restlen))\n    return None\ndef same(pair):\n    return [pair[0] is pair[1], pair[1]]\n'
      # a parse started from inline Python in the middle of another one (with a log of its own)
      'def nested(name, text):\n    global LOG\n    saved = LOG\n    LOG = []\n    try:\n        globals()[name].parse(text)\n'
      '    except Exception:\n        pass\n    finally:\n        LOG = saved\n    return None')


def instrument(g):
    rules = []
    for r in g.rules:
        name = r[1]
        probe = ('apply', ('expect', ('rx', '(?s).*')), ('py', 'lambda rest: note(%r, len(rest))' % name))
        if r[2] is not None:
            rules.append(r)                      # templates are not the property's subject
        elif r[0] == 'rule' and r[3][0] == 'ref':
            rules.append(r)                      # keep plain aliases plain: their target is probed
        elif r[0] == 'rule':
            rules.append(('rule', name, None, ('right', probe, r[3])))
        else:
            rules.append(('class', name, None, [('pass', None, probe)] + list(r[3])))
    return g.copy(rules=rules, pysections=[PY])


def families(depth):
    """Grammars whose un-memoised evaluation is exponential in the input length."""
    out = []
    g1 = peg.G([('rule', 'E', None, ('choice', [('left', ('right', ('lit', '('), ('ref', 'E')), ('lit', ')')),
                                              ('left', ('right', ('lit', '('), ('ref', 'E')), ('lit', ']')),
                                              ('lit', 'x')])),
                ('rule', 'start', None, ('ref', 'E'))])
    out.append(('brackets', g1, ['(' * n + 'x' + ']' * n for n in range(1, depth + 1)] +
                ['(' * n + 'x' + ']' * (n - 1) + '}' for n in range(2, depth + 1)] +
                ['(' * n + 'x' + ']' * n for n in (40, 100, 300)]))
    g2 = peg.G([('rule', 'A', None, ('choice', [('seq', [('expect', ('ref', 'A2')), ('ref', 'A2'), ('lit', '!')]),
                                              ('seq', [('expectnot', ('seq', [('ref', 'A2'), ('lit', '?')])), ('ref', 'A2')])])),
                ('rule', 'A2', None, ('choice', [('right', ('lit', 'a'), ('ref', 'A')), ('lit', 'a')])),
                ('rule', 'start', None, ('ref', 'A'))])
    out.append(('lookahead', g2, ['a' * n for n in range(1, depth + 1)] + ['a' * n + '!' for n in range(1, depth + 1)]))
    g3 = peg.G([('class', 'K', None, [('field', 'inner', ('choice', [('left', ('right', ('lit', '('), ('ref', 'K')), ('lit', ')')),
                                                                       ('left', ('right', ('lit', '('), ('ref', 'K')), ('lit', ']')),
                                                                       ('lit', 'x')]))]),
                ('rule', 'start', None, ('ref', 'K'))])
    out.append(('class-brackets', g3, ['(' * n + 'x' + ']' * n for n in range(1, depth + 1)]))
    g4 = peg.G([('rule', 'S', None, ('rep', ('choice', [('seq', [('ref', 'T'), ('lit', ';')]), ('seq', [('ref', 'T'), ('lit', ',')]),
                                                         ('seq', [('ref', 'T'), ('lit', '.')])]), 0, None)),
                ('rule', 'T', None, ('choice', [('seq', [('lit', 'a'), ('ref', 'T')]), ('lit', 'a')])),
                ('rule', 'start', None, ('ref', 'S'))])
    out.append(('repetition', g4, [('a' * n + '.') * 2 for n in range(1, depth + 1)] +
                [('aaa.') * 40, ('a' * 20 + '.') * 6, ('a' * 70 + ',') * 3]))
    g5 = peg.G([('rule', 'X', None, ('lit', 'b')),
                ('rule', 'T', None, ('choice', [('seq', [('lit', 'a'), ('ref', 'T')]), ('lit', 'a')])),
                ('rule', 'start', None, ('choice', [('seq', [('ref', 'X'), ('ref', 'T'), ('lit', '!')]),
                                                   ('seq', [('ref', 'X'), ('ref', 'T'), ('lit', '?')])]))])
    # an entry made long ago (X at 0) is needed again after many other entries were made
    out.append(('old-entry', g5, ['b' + 'a' * n + '?' for n in (1, 5, 70, 200, 1000, 6000, 20000 if depth <= 12 else 100000)]))
    return out


def check_log(log, nrules, t, exclude=()):
    """Returns None or (bucket, detail)."""
    n = len(t)
    seen = {}
    for rule, rest in log:
        if rule in exclude:
            continue
        key = (rule, n - rest)
        seen[key] = seen.get(key, 0) + 1
    worst = [(k, c) for k, c in seen.items() if c > 1]
    if worst:
        k, c = max(worst, key=lambda kc: kc[1])
        return ('rule-evaluated-twice-at-one-position', 'rule %s at %d: %d evaluations' % (k[0], k[1], c))
    if len([1 for r, _ in log if r not in exclude]) > nrules * (n + 1):
        return ('more-evaluations-than-rules-x-positions', '%d > %d' % (len(log), nrules * (n + 1)))
    return None


class C07(Check):
    id = 'C07'
    technique = 'PBT: hypothesis grammars with dense references + exponential families; rule bodies instrumented through the DSL; invariant over the (rule, position) call log, identity of memoised results'
    rule = ('cases = (grammar, entry, input); every rule/class body of a generated grammar (core grammars text/bytes with dense '
            'references, optional ignore; classes) is prefixed with a DSL-level probe that logs (rule, position) through a '
            'Python-section callback; four exponential families (nested brackets with a late mismatch, lookahead re-parsing, '
            'class recursion, repetition of alternatives sharing a prefix) at depth <= 12 (quick) / 16 (thorough). Invariants: '
            'no (rule, position) logged twice, total <= rules x (len+1), a rule that returns a fresh list/instance and is '
            'referenced twice at one position yields the identical object, and the instrumented parser still agrees with the '
            'reference on the outcome. Non-trivial iff the (non-memoising) reference interpreter references some rule >= 2 '
            'times at one position; distinct by (grammar text, entry, input).')
    assumptions = ['the start rule of a grammar with ignore patterns is excluded from the per-position invariant (its probe runs after the leading skip, the memo key is the position before it)']
    budget_quick = 170
    budget_thorough = 1500

    def tasks(self, tier, seed):
        n = 15 if tier == 'quick' else 60
        per = 60 if tier == 'quick' else 400
        t = [('hyp', seed * 1000003 + s, per) for s in range(n)]
        t.append(('families', 12 if tier == 'quick' else 16))
        return t

    def run_one(self, res, g, gi, mod, name, t, tag, exclude=()):
        it = peg.Interp(g, t)
        try:
            r = it.run_rule(name)
        except (peg.StepLimit, peg.RefError, RecursionError):
            r = 'skip'
        del mod.LOG[:]
        got, raw = sut.run(mod, name, t, budget=diff.QUICK_BUDGET * 3, raw=True)
        log = list(mod.LOG)
        res.evals += 1
        bad = None
        if got[0] in ('EXC', 'HANG'):
            bad = ('outcome-' + got[0], str(got))
        elif r != 'skip' and not sut.agrees(sut.expected(r, t), got):
            bad = ('instrumented-outcome', '%r vs %r' % (sut.expected(r, t), got))
        else:
            nrules = sum(1 for rr in g.rules if rr[2] is None and not (rr[0] == 'rule' and rr[3][0] == 'ref'))
            bad = check_log(log, nrules, t, exclude)
        multi = r != 'skip' and any(c >= 2 for (rn, _), c in it.refcalls.items() if rn not in exclude)
        if multi:
            res.nontrivial.add(h64(tag, peg.render(g), name, t))
            res.hist['nontrivial'] += 1
            if len(res.samples) < 2:
                res.sample({'grammar': peg.render(g)[-300:], 'entry': name, 'input': repr(t)[:60],
                            'log_entries': len(log),
                            'max_references_at_one_position': max(it.refcalls.values())})
        return bad, got, raw

    def run_task(self, task):
        res = Result()
        if task[0] == 'families':
            for label, g, inputs in families(task[1]):
                gi = instrument(g)
                mod, err = sut.compile_grammar(peg.render(gi))
                assert mod is not None, err
                for t in inputs:
                    bad, got, raw = self.run_one(res, g, gi, mod, 'start', t, label)
                    if bad:
                        res.mismatch({'family': label, 'depth': task[1], 'text': t})
                        break
            return res
        from hypothesis import given, settings, seed, HealthCheck, Phase, strategies as st
        _, s, n = task

        @seed(s)
        @settings(max_examples=n, database=None, deadline=None, phases=[Phase.generate],
                  suppress_health_check=list(HealthCheck), report_multiple_bugs=False)
        @given(st.integers(0, 4).flatmap(lambda m: gens.core_grammar(nrules=6, depth=4, mode='bytes' if m == 0 else 'text')),
               st.booleans(), st.data())
        def prop(g, with_ignore, data):
            rules = [r for r in g.rules if r[1] != 'start']
            # fresh-object rules referenced twice at one position: identity of the memoised result
            rules.append(('rule', 'L0', None, ('seq', [('ref', 'R0')])))
            rules.append(('class', 'K0', None, [('field', 'v', ('ref', 'R1'))]))
            rules.append(('rule', 'TwiceL', None, ('apply', ('seq', [('expect', ('ref', 'L0')), ('ref', 'L0')]), ('py', 'same'))))
            rules.append(('rule', 'TwiceK', None, ('apply', ('seq', [('expect', ('ref', 'K0')), ('ref', 'K0')]), ('py', 'same'))))
            rules.append(('rule', 'Alt', None, ('choice', [('seq', [('ref', 'R0'), ('lit', '!')]), ('seq', [('ref', 'R0'), ('lit', '?')]),
                                                           ('seq', [('ref', 'R0'), ('opt', ('ref', 'R1'))])])))
            # alias rules (a body that is a bare reference) next to direct references
            rules.append(('rule', 'A1', None, ('ref', 'R0')))
            rules.append(('rule', 'A2', None, ('ref', 'A1')))
            rules.append(('rule', 'ViaAlias', None, ('choice', [('seq', [('ref', 'A1'), ('lit', '!')]), ('seq', [('ref', 'R0'), ('lit', '?')]),
                                                                ('seq', [('expect', ('ref', 'A2')), ('ref', 'R0'), ('opt', ('ref', 'A1'))])])))
            # a rule handed to a parameterised rule as an argument, referenced again at the same place
            rules.append(('rule', 'Wrap', ['x'], ('seq', [('ref', 'x')])))
            wr = ('call', 'Wrap', [('ref', 'R0')], [])
            rules.append(('rule', 'ViaTemplate', None, ('choice', [('seq', [wr, ('lit', '!')]), ('seq', [wr, ('lit', '?')]),
                                                                   ('seq', [('expect', wr), ('ref', 'R0'), ('opt', ('call', 'Wrap', [], [('x', ('ref', 'R0'))]))])])))
            # "within one parse call": a nested parse call (made by inline Python) is another call; the outer one
            # still knows what it has evaluated when the inner one returns
            ntext = b'ab' if g.mode == 'bytes' else 'ab'
            inner = ('apply', ('lit', ''), ('py', 'lambda v: nested("R1", %r)' % (ntext,)))
            rules.append(('rule', 'Nest', None, ('choice', [('seq', [('ref', 'R0'), inner, ('lit', '!')]),
                                                            ('seq', [('ref', 'R0'), ('opt', ('ref', 'R1')), inner, ('lit', '?')]),
                                                            ('seq', [('ref', 'R0'), ('opt', ('ref', 'R1'))])])))
            rules.append(('rule', 'start', None, ('choice', [('seq', [('ref', 'R0'), ('ref', 'R1'), ('lit', 'Z')]),
                                                             ('seq', [('ref', 'R0'), ('ref', 'R1'), ('opt', ('ref', 'R2'))])])))
            g2 = g.copy(rules=rules)
            named = None
            if data.draw(st.booleans()):
                named = sut.fresh_name('vfc07_')
                g2 = g2.copy(header=named)
                res.hist['named'] += 1
            exclude = ()
            if with_ignore:
                g2 = g2.copy(ignores=[(None, ('lit', ' '))])
                exclude = ('start',)
            alpha = 'ab ' if with_ignore else 'abZ'
            inputs = gens.all_inputs(alpha, 4, g.mode)
            inputs += [x.encode('latin-1') if g.mode == 'bytes' else x for x in
                       data.draw(st.lists(st.text(alphabet=alpha, min_size=5, max_size=10), min_size=10, max_size=10))]
            if runner.over_budget(res):
                return
            gi = instrument(g2)
            mod, err = sut.compile_grammar(peg.render(gi))
            if mod is None:
                res.mismatch({'g': peg.g_to_dict(g2), 'entry': 'start', 'text': ''})
                return
            res.hist['grammars'] += 1
            pg = {'same': lambda pair: [True, pair[1]]}
            for name in ('start', 'Alt', 'ViaAlias', 'ViaTemplate', 'Nest', 'TwiceL', 'TwiceK', 'R0'):
                hang = False
                for t in inputs:
                    bad, got, raw = self.run_one(res, g2, gi, mod, name, t, 'hyp', exclude)
                    if bad is None and name.startswith('Twice') and got[0] in ('OK', 'PARTIAL'):
                        val = raw.partial_result if got[0] == 'PARTIAL' else raw
                        if val[0] is not True:
                            bad = ('memoised-result-not-identical', name)
                    if bad:
                        res.mismatch({'g': peg.g_to_dict(diff.reachable_subgrammar(g2, name).copy(ignores=g2.ignores)),
                                      'entry': name, 'text': t, 'exclude': list(exclude)})
                        if got[0] == 'HANG':
                            hang = True
                        break
                if hang:
                    break
            if named:
                sut.forget(named)
        try:
            prop()
        except runner.StopTask:
            pass
        return res

    def replay(self, case):
        if 'family' in case:
            for label, g, inputs in families(case['depth']):
                if label != case['family']:
                    continue
                gi = instrument(g)
                mod, err = sut.compile_grammar(peg.render(gi))
                if mod is None:
                    return {'bucket': 'compile', 'got': list(err)}
                res = Result()
                bad, got, raw = self.run_one(res, g, gi, mod, 'start', case['text'], label)
                if bad:
                    return {'bucket': bad[0], 'detail': bad[1], 'family': label, 'input': case['text'][:80]}
            return None
        g = peg.g_from_dict(case['g'])
        gi = instrument(g)
        mod, err = sut.compile_grammar(peg.render(gi))
        if mod is None:
            return {'bucket': 'compile', 'got': list(err), 'grammar': peg.render(gi)}
        res = Result()
        name, t = case['entry'], case['text']
        bad, got, raw = self.run_one(res, g, gi, mod, name, t, 'replay', tuple(case.get('exclude', ())))
        if bad is None and name.startswith('Twice') and got[0] in ('OK', 'PARTIAL'):
            val = raw.partial_result if got[0] == 'PARTIAL' else raw
            if val[0] is not True:
                bad = ('memoised-result-not-identical', name)
        if bad is None:
            return None
        return {'bucket': bad[0], 'detail': bad[1], 'grammar': peg.render(g), 'entry': name, 'input': repr(t)}

    def shrink(self, case, still_fails, deadline):
        if 'family' in case:
            return case

        def ok(c):
            g = peg.g_from_dict(c['g'])
            return c['entry'] in g.ruledict() and diff.wellformed(g) and still_fails(c)
        return shrink.shrink_case(case, ok, deadline)

    def describe(self, case):
        if 'family' in case:
            return dict(case)
        g = peg.g_from_dict(case['g'])
        return {'grammar': peg.render(g), 'instrumented': peg.render(instrument(g)), 'entry': case['entry'],
                'input': repr(case.get('text'))}

    def selftest(self):
        from selftest import test_peg
        test_peg.run()


if __name__ == '__main__':
    sys.exit(runner.main(C07()))
