#!/usr/bin/env python3
"""Sensitivity runs (DESIGN section 6): apply one textual mutation at a time to a scratch
worktree of /repo's HEAD, run the repository's own tests (does the mutant survive them?)
and the given check's quick tier against it.  Usage:
   tools/mutants.py C03 [label-substring ...]
The scratch worktree lives in /tmp/wt_mut and is removed afterwards."""
import subprocess, sys, os, time
ROOT = os.path.dirname(os.path.dirname(os.path.abspath(__file__)))
WT = '/tmp/wt_mut'

M = {
 'C01': [
  ('choice any->all', 'sourcer/expressions/choice.py', "    def can_partially_succeed(self):\n        return not self.always_succeeds() and (\n            any(", "    def can_partially_succeed(self):\n        return not self.always_succeeds() and (\n            all("),
  ('expect cps False', 'sourcer/expressions/expect.py', "    def can_partially_succeed(self):\n        return self.expr.can_partially_succeed()", "    def can_partially_succeed(self):\n        return False"),
  ('skip drop restore', 'sourcer/expressions/skip.py', "                if expr.can_partially_succeed():\n                    with out.ELSE():\n                        out += POS << checkpoint\n", ""),
  ('longest ties <=', 'sourcer/expressions/longest.py', "with out.ELIF(farthest_position < POS):", "with out.ELIF(farthest_position <= POS):"),
  ('longest restore only if prev cps', 'sourcer/expressions/longest.py', "            if i > 0:\n                out += (POS << backtrack)", "            if i > 0 and self.exprs[i - 1].can_partially_succeed():\n                out += (POS << backtrack)"),
  ('revert F01', 'sourcer/expressions/list.py', "        if self.min_len == 1 or self.min_len == '1':\n            return self.expr.can_partially_succeed()\n", "        if True:\n            return self.expr.can_partially_succeed()\n"),
  ('seq cps any child', 'sourcer/expressions/seq.py', "    def __str__(self):\n        return f'[{\", \".join(str(x) for x in self.exprs)}]'", "    def can_partially_succeed(self):\n        return any(x.can_partially_succeed() for x in self.exprs)\n\n    def __str__(self):\n        return f'[{\", \".join(str(x) for x in self.exprs)}]'"),
  ('discard cps first only', 'sourcer/expressions/discard.py', "    def _compile(self, out, flags):", "    def can_partially_succeed(self):\n        return not self.always_succeeds() and self.expr1.can_partially_succeed()\n\n    def _compile(self, out, flags):"),
  ('opt restore only if cps (equivalent)', 'sourcer/expressions/opt.py', "            out += POS << backtrack\n", "            if self.expr.can_partially_succeed():\n                out += POS << backtrack\n"),
  ('regex cps True (equivalent)', 'sourcer/expressions/regex.py', "    def can_partially_succeed(self):\n        return False", "    def can_partially_succeed(self):\n        return True"),
 ],
 'C02': [
  ('pop cond assoc!=2', 'sourcer/expressions/operator_table.py', "_top_prec == _prec and _top_assoc == 1)", "_top_prec == _prec and _top_assoc != 2)"),
  ('longest->choice in combine', 'sourcer/expressions/operator_table.py', "                return Longest(*exprs)", "                return Choice(*exprs)"),
  ('conflict compares assoc only', 'sourcer/expressions/operator_table.py', "with out.ELIF(Code(f'_top_prec == _prec and _top_assoc == 3')):", "with out.ELIF(Code(f'_top_assoc == 3')):"),
  ('marker not refreshed after postfix', 'sourcer/expressions/operator_table.py', "            out += operator_marker << Code(f'len({operator_stack})')\n            out += outer_checkpoint << POS\n", "            out += outer_checkpoint << POS\n"),
  ('marker after infix removed', 'sourcer/expressions/operator_table.py', "            out += operator_marker << Code(f'len({operator_stack})')\n            out += operator_stack.append(RESULT)", "            out += operator_stack.append(RESULT)"),
  ('revert F05', 'sourcer/expressions/operator_table.py', "            with out.IF(Code('_prec is None')):\n                out += BREAK\n", ""),
  ('revert F06 restore', 'sourcer/expressions/operator_table.py', "                with out.IF(operand_stack):\n                    out += (POS << outer_checkpoint)\n                out += BREAK\n\n            # OK, we have an operand.", "                out += BREAK\n\n            # OK, we have an operand."),
  ('revert F06 flag', 'sourcer/expressions/operator_table.py', "            self.prefixes is not None or self.operands.can_partially_succeed()", "            self.operands.can_partially_succeed()"),
  ('postfix pop <= (equivalent)', 'sourcer/expressions/operator_table.py', "{ops}[-1][0] < {RESULT[0]}", "{ops}[-1][0] <= {RESULT[0]}"),
  ('right assoc pops equal', 'sourcer/expressions/operator_table.py', "_top_prec == _prec and _top_assoc == 1)", "_top_prec == _prec and _top_assoc in (1, 2))"),
  ('prefix popped by looser infix only', 'sourcer/expressions/operator_table.py', "Code(f'_top_prec < _prec or (", "Code(f'(_top_prec < _prec and _top_assoc != 0) or ("),
 ],
 'C14': [
  ('eq skips last field', 'sourcer/translator.py', "        for field in self._fields:\n            left = getattr(self, field)", "        for field in self._fields[:-1] if len(self._fields) > 1 else self._fields:\n            left = getattr(self, field)"),
  ('hash dict order-dependent', 'sourcer/translator.py', "            for pair in value.items():\n                result ^= _hash(pair)", "            for pair in value.items():\n                result = result * 31 + _hash(pair)"),
  ('replace returns self when empty', 'sourcer/translator.py', "    def _replace(self, **kw):\n", "    def _replace(self, **kw):\n        if not kw:\n            return self\n"),
  ('replace drops metadata', 'sourcer/translator.py', "        result = self.__class__(**kw)\n        result._metadata.update(self._metadata)\n", "        result = self.__class__(**kw)\n"),
  ('revert F18', 'sourcer/translator.py', "        if name == '_fields' or (name.startswith('__') and name.endswith('__')):", "        if False:"),
  ('eq ignores class', 'sourcer/translator.py', "        if not isinstance(other, self.__class__):\n            return False", "        if not isinstance(other, ParsedObject) or self._fields != other._fields:\n            return False"),
  ('hash list order-dependent', 'sourcer/translator.py', "            for item in value:\n                result ^= _hash(item)", "            for i, item in enumerate(value):\n                result ^= _hash(item) * (i + 1)"),
  ('hash cached across replace', 'sourcer/translator.py', "        result._metadata.update(self._metadata)\n        return result", "        result._metadata.update(self._metadata)\n        result._hash = self._hash\n        return result"),
  ('eq identity shortcut on fields only', 'sourcer/translator.py', "            if left is not right and left != right:", "            if left is not right and not (left == right):"),
 ],
 'C15': [
  ('visit fields unreversed', 'sourcer/translator.py', "                stack.extend(getattr(node, x) for x in reversed(node._fields))", "                stack.extend(getattr(node, x) for x in node._fields)"),
  ('traverse unreversed', 'sourcer/translator.py', "            stack.extend(reversed(list(items)))", "            stack.extend(list(items))"),
  ('traverse dict by index', 'sourcer/translator.py', "                for k, v in child.items()", "                for k, v in enumerate(child.values())"),
  ('revert F19', 'sourcer/translator.py', "        child = traversing.child\n        stack.append(traversing._replace(is_finished=True))\n        yield traversing\n", "        child = traversing.child\n        if id(child) in visited:\n            continue\n        stack.append(traversing._replace(is_finished=True))\n        yield traversing\n        visited.add(id(child))\n"),
  ('visit skips tuples', 'sourcer/translator.py', "        if isinstance(node, (list, tuple)):\n            stack.extend(reversed(node))\n\n        elif isinstance(node, dict):\n            stack.extend(reversed(node.values()))", "        if isinstance(node, list):\n            stack.extend(reversed(node))\n\n        elif isinstance(node, dict):\n            stack.extend(reversed(node.values()))"),
  ('visit recursive for objects', 'sourcer/translator.py', "            yield node\n\n            if hasattr(node, '_fields'):\n                stack.extend(getattr(node, x) for x in reversed(node._fields))", "            yield node\n\n            for x in node._fields:\n                yield from (n for n in visit(getattr(node, x)) if id(n) not in visited and not visited.add(id(n)))"),
 ],
 'C16': [
  ('metadata condition inverted', 'sourcer/translator.py', "                    and not node._metadata\n", "                    and node._metadata\n"),
  ('replace drops metadata', 'sourcer/translator.py', "        result = self.__class__(**kw)\n        result._metadata.update(self._metadata)\n", "        result = self.__class__(**kw)\n"),
  ('callbacks reversed', 'sourcer/translator.py', "        for f in callbacks:\n            prev = node", "        for f in reversed(callbacks):\n            prev = node"),
  ('parent before children when changed', 'sourcer/translator.py', "    if updates:\n        node = node._replace(**updates)\n\n    return callback(node)", "    if updates:\n        node = node._replace(**updates)\n        return node\n\n    return callback(node)"),
  ('tuples transformed', 'sourcer/translator.py', "    if isinstance(node, list):\n        return [_transform(x, callback) for x in node]", "    if isinstance(node, list):\n        return [_transform(x, callback) for x in node]\n    if isinstance(node, tuple):\n        return tuple(_transform(x, callback) for x in node)"),
  ('in-place update', 'sourcer/translator.py', "    if updates:\n        node = node._replace(**updates)\n", "    if updates:\n        for k, v in updates.items():\n            setattr(node, k, v)\n"),
  ('metadata shared not copied', 'sourcer/translator.py', "                    node._metadata.update(prev._metadata)\n", "                    node._metadata = prev._metadata\n"),
 ],
 'C09': [
  ('column restarts at 1', 'sourcer/translator.py', "            current_line += 1\n            current_column = 0", "            current_line += 1\n            current_column = 1"),
  ('caret at col', 'sourcer/translator.py', "        return text[start : end] + _caret_at(col - 1)", "        return text[start : end] + _caret_at(col)"),
  ('chop-start caret +3', 'sourcer/translator.py', "_caret_at(pos - (end - 90) + 4)", "_caret_at(pos - (end - 90) + 3)"),
  ('revert F16', 'sourcer/translator.py', "    elif end - pos < 42:", "    elif end - pos < 40:"),
  ('chop-end caret', 'sourcer/translator.py', "        return text[start : start + 90] + ' ...' + _caret_at(col - 1)", "        return text[start : start + 90] + ' ...' + _caret_at(col)"),
  ('both-ends window 41', 'sourcer/translator.py', "text[pos - 42 : pos + 42] + ' ...' + _caret_at(42 + 4)", "text[pos - 41 : pos + 42] + ' ...' + _caret_at(42 + 4)"),
  ('col<60 -> col<=60... wait 90', 'sourcer/translator.py', "    if col < 60:", "    if col < 92:"),
  ('partial uses start line', 'sourcer/translator.py', "        line, col = line_numbers[pos], column_numbers[pos]\n        position = _Position(pos, line, col)", "        line, col = line_numbers[max(0, pos - 1)], column_numbers[pos]\n        position = _Position(pos, line, col)"),
  ('eof gives line numbers', 'sourcer/translator.py', "                with out.IF(Code('len')(TEXT) <= POS):", "                with out.IF(Code('len')(TEXT) < POS):"),
  ('excerpt end search from pos', 'sourcer/translator.py', "match = _compile_re('\\n').search(text, pos + 1)", "match = _compile_re('\\n').search(text, pos + 2)"),
 ],
 'C05': [
  ('class let field kept', 'sourcer/expressions/class_.py', "field_names = [x.name for x in self.members if not x.is_omitted and x.name]", "field_names = [x.name for x in self.members if x.name]"),
  ('where returns predicate value', 'sourcer/expressions/where.py', "                with out.IF(RESULT(arg)):\n                    out += RESULT << arg\n", "                with out.IF(RESULT(arg)):\n                    pass\n"),
  ('apply_left swapped', 'sourcer/expressions/apply.py', "result = first(RESULT) if self.apply_left else RESULT(first)", "result = RESULT(first) if self.apply_left else first(RESULT)"),
  ('where truthiness -> is True', 'sourcer/expressions/where.py', "                with out.IF(RESULT(arg)):", "                with out.IF(Code('(', RESULT(arg), ') is True')):"),
  ('let binds after body when body always succeeds', 'sourcer/expressions/let.py', "            out += Code(self.name) << RESULT\n            self.body.compile(out, flags)", "            if self.body.always_succeeds():\n                _tmp = out.var('letval', RESULT)\n                self.body.compile(out, flags)\n                out += Code(self.name) << _tmp\n            else:\n                out += Code(self.name) << RESULT\n                self.body.compile(out, flags)"),
  ('requires checked before previous member', 'sourcer/expressions/class_.py', "                exprs = (x.expr for x in self.members)", "                ms = list(self.members)\n                for _i in range(1, len(ms)):\n                    if ms[_i].name is None and ms[_i].is_omitted and type(ms[_i].expr).__name__ == 'Where' and ms[_i - 1].name is None:\n                        ms[_i - 1], ms[_i] = ms[_i], ms[_i - 1]\n                exprs = (x.expr for x in ms)"),
  ('memo ignores call arguments', 'sourcer/translator.py', "    def __hash__(self):\n        # The memo table", "    def __eq__(self, other):\n        return isinstance(other, _ParseFunction) and self.func is other.func\n\n    def __hash__(self):\n        return hash(self.func)\n\n    def _unused_hash(self):\n        # The memo table"),
  ('symbolic min uses max', 'sourcer/expressions/list.py', "            condition = LEN(staging) >= Code(self.min_len)", "            condition = LEN(staging) >= Code(self.min_len if str(self.min_len).isdigit() or self.max_len is None else self.max_len)"),
  ('pass member value kept as field', 'sourcer/expressions/seq.py', "                if which is None or name in which:", "                if which is None or name in which or (name is None and False):"),
 ],
 'C06': [
  ('revert F07', 'sourcer/expressions/byte.py', "        value = Expression.argumentize(self, out, flags)", "        value = self.argumentize(out, flags)"),
  ('revert F08 cutoff', 'sourcer/expressions/base.py', "        if len(params) <= cutoff:\n            return func\n        else:\n            _ParseFunction = Code('_ParseFunction')\n            value = _ParseFunction(func, tuple(params[cutoff:]), ())", "        if len(params) <= 3:\n            return func\n        else:\n            _ParseFunction = Code('_ParseFunction')\n            value = _ParseFunction(func, tuple(params[2:]), ())"),
  ('revert F09', 'sourcer/expressions/call.py', "class KeywordArg(Expression):", "class KeywordArg:"),
  ('revert F10', 'sourcer/translator.py', "        return _hash(tuple(self))", "        return hash(tuple(self))"),
  ('memo ignores call arguments', 'sourcer/translator.py', "    def __hash__(self):\n        # The memo table", "    def __eq__(self, other):\n        return isinstance(other, _ParseFunction) and self.func is other.func\n\n    def __hash__(self):\n        return hash(self.func)\n\n    def _unused_hash(self):\n        # The memo table"),
  ('call drops kwargs', 'sourcer/translator.py', "        return self.func(${ctx}_text, _pos, *self.args, **dict(self.kwargs))", "        return self.func(${ctx}_text, _pos, *self.args)"),
  ('kwargs bound positionally', 'sourcer/expressions/call.py', "            if is_kw:\n                kwargs.append((arg.name, value))\n            else:\n                args.append(value)", "            args.append(value)"),
  ('str literal arg not wrapped', 'sourcer/expressions/str.py', "        return out.var('arg', wrap(self.value, value))", "        return value"),
  ('parse function equality by hash', 'sourcer/translator.py', "    def __hash__(self):\n        # The memo table", "    def __eq__(self, other):\n        return isinstance(other, _ParseFunction) and hash(self) == hash(other)\n\n    def __hash__(self):\n        # The memo table"),
  ('captured args as defaults (early binding)', 'sourcer/expressions/base.py', "            value = _ParseFunction(func, tuple(params[cutoff:]), ())\n            return out.var('arg', value)", "            value = _ParseFunction(func, tuple(params[cutoff:]), ())\n            return out.var('arg', value) if len(params) - cutoff < 2 else func"),
 ],
 'C04': [
  ('byte never skips', 'sourcer/expressions/byte.py', "            if self.skip_ignored:\n                out += POS << utils.skip_ignored(end, flags)", "            if False:\n                out += POS << utils.skip_ignored(end, flags)"),
  ('regex skips only when case-sensitive', 'sourcer/expressions/regex.py', "            if self.skip_ignored:", "            if self.skip_ignored and not self.ignore_case:"),
  ('leading skip on first rule', 'sourcer/translator.py', "            first_rule = start_rule\n", "            first_rule = rules[0] if isinstance(rules[0], ex.Rule) and not rules[0].is_ignored else start_rule\n"),
  ('start lookup case-sensitive', 'sourcer/translator.py', "        if start_rule is None and node.name and node.name.lower() == 'start':", "        if start_rule is None and node.name and node.name == 'start':"),
  ('revert F04', 'sourcer/translator.py', "first_rule = start_rule.members[0] if start_rule.members else None", "first_rule = start_rule.fields[0] if start_rule.fields else None"),
  ('no skip inside lookahead', 'sourcer/translator.py', "        for rule in rules:\n            if not rule.is_ignored:\n                visit(rules, _set_skip_ignored)\n", "        for rule in rules:\n            if not rule.is_ignored:\n                visit(rules, _set_skip_ignored)\n\n        def _unset_in_lookahead(e):\n            if isinstance(e, (ex.Expect, ex.ExpectNot)):\n                visit(e.expr, lambda x: setattr(x, 'skip_ignored', False) if hasattr(x, 'skip_ignored') else None)\n        visit(rules, _unset_in_lookahead)\n"),
  ('skip after empty literal', 'sourcer/expressions/str.py', "        if not self.value:\n            out += STATUS << True\n            out += RESULT << self.value\n            return", "        if not self.value:\n            out += STATUS << True\n            out += RESULT << self.value\n            if self.skip_ignored:\n                out += POS << utils.skip_ignored(POS, flags)\n            return"),
  ('class start: skip before second member', 'sourcer/translator.py', "first_rule = start_rule.members[0] if start_rule.members else None", "first_rule = start_rule.members[-1] if start_rule.members else None"),
  ('only first ignore rule used', 'sourcer/translator.py', "        refs = [Ref(x.name) for x in ignored]\n", "        refs = [Ref(x.name) for x in ignored[:1]]\n"),
 ],
 'C08': [
  ('class entry ignores fullparse', 'sourcer/expressions/class_.py', "                out.RETURN(Code(f'_run({ctx}text, pos, {parse_func}, fullparse)'))", "                out.RETURN(Code(f'_run({ctx}text, pos, {parse_func}, True)'))"),
  ('falsy partial result -> ParseError', 'sourcer/translator.py', "    if fullparse and pos < len(text):\n        line, col", "    if fullparse and pos < len(text) and not nodes:\n        raise ParseError('Incomplete parse.', pos, None, None)\n\n    if fullparse and pos < len(text):\n        line, col"),
  ('revert F14', 'sourcer/expressions/class_.py', "                    f'lambda text, pos=0, fullparse=True:'", "                    f'lambda {ctx}text, pos=0, fullparse=True:'"),
  ('revert F15', 'sourcer/translator.py', "    line_numbers.append(current_line)\n    column_numbers.append(current_column + 1)\n", ""),
  ('partial index is start pos', 'sourcer/translator.py', "        position = _Position(pos, line, col)\n        excerpt", "        position = _Position(pos if nodes else 0, line, col)\n        excerpt"),
  ('rule entry ignores pos', 'sourcer/expressions/rule.py', "                out.RETURN(Code(f'_run({ctx}text, pos, {impl_name}, fullparse)'))", "                out.RETURN(Code(f'_run({ctx}text, pos if fullparse else 0, {impl_name}, fullparse)'))"),
  ('fullparse compares <=', 'sourcer/translator.py', "    if fullparse and pos < len(text):\n        line, col", "    if fullparse and pos < len(text) - (1 if text[-1:] in ('\\n', b'\\n') else 0):\n        line, col"),
 ],
 'C10': [
  ('start line from end offset', 'sourcer/translator.py', "start=_Position(start, line_numbers[start], column_numbers[start])", "start=_Position(start, line_numbers[end], column_numbers[start])"),
  ('end not decremented', 'sourcer/translator.py', "            start, end = pos_info\n            end -= 1", "            start, end = pos_info"),
  ('visit dedup removed', 'sourcer/translator.py', "            if node_id in visited:\n                continue\n            visited.add(node_id)\n\n            yield node", "            visited.add(node_id)\n\n            yield node"),
  ('span start after leading skip', 'sourcer/expressions/seq.py', "        if self.needs_parse_info:\n            start_pos = out.var('start_pos', POS)\n\n        cargs", "        cargs"),
  ('span end before trailing skip... uses start of last member', 'sourcer/expressions/seq.py', "                out += RESULT._metadata.position_info << (start_pos, POS)", "                out += RESULT._metadata.position_info << (start_pos, POS if len(self.exprs) < 2 else Code('max(', start_pos, ' + 1, ', POS, ' - 1)'))"),
  ('column off by one after newline', 'sourcer/translator.py', "            current_line += 1\n            current_column = 0", "            current_line += 1\n            current_column = 1"),
  ('partial result not finalized', 'sourcer/translator.py', "    for node in visit(nodes):\n        pos_info = node._metadata.position_info", "    for node in (visit(nodes) if not (fullparse and pos < len(text)) else ()):\n        pos_info = node._metadata.position_info"),
  ('finalize skips tuples', 'sourcer/translator.py', "        if isinstance(node, (list, tuple)):\n            stack.extend(reversed(node))\n\n        elif isinstance(node, dict):\n            stack.extend(reversed(node.values()))", "        if isinstance(node, list):\n            stack.extend(reversed(node))\n\n        elif isinstance(node, dict):\n            stack.extend(reversed(node.values()))"),
 ],
 'C07': [
  ('memo store removed', 'sourcer/translator.py', "            stack.pop()\n            memo[key] = result", "            stack.pop()"),
  ('only successes memoised', 'sourcer/translator.py', "            stack.pop()\n            memo[key] = result", "            stack.pop()\n            if result[0]:\n                memo[key] = result"),
  ('only failures memoised', 'sourcer/translator.py', "            stack.pop()\n            memo[key] = result", "            stack.pop()\n            if not result[0]:\n                memo[key] = result"),
  ('memo bounded to 64 entries', 'sourcer/translator.py', "            stack.pop()\n            memo[key] = result", "            stack.pop()\n            if len(memo) >= 64:\n                memo.clear()\n            memo[key] = result"),
  ('memo copies list results', 'sourcer/translator.py', "        elif result in memo:\n            result = memo[result]", "        elif result in memo:\n            result = memo[result]\n            if isinstance(result[1], list):\n                result = (result[0], list(result[1]), result[2])"),
  ('zero-width results not memoised', 'sourcer/translator.py', "            stack.pop()\n            memo[key] = result", "            stack.pop()\n            if result[2] != key[2]:\n                memo[key] = result"),
  ('memo skipped at position 0', 'sourcer/translator.py', "            stack.pop()\n            memo[key] = result", "            stack.pop()\n            if key[2]:\n                memo[key] = result"),
 ],
 'C19': [
  ('Some = exactly one', 'sourcer/expressions/sugar.py', "    return List(expr, min_len=1)", "    return List(expr, min_len=1, max_len=1)"),
  ('{m,} read as {m,m}', 'sourcer/translator.py', "            start = uncook(op.start)\n            stop = uncook(op.stop)", "            start = uncook(op.start)\n            stop = uncook(op.stop)\n            if stop is None and start is not None:\n                stop = start"),
  ('Sep constructor default trailer', 'sourcer/expressions/sep.py', "            discard_separators=True,\n            allow_trailer=False,", "            discard_separators=True,\n            allow_trailer=True,"),
  ('uppercase I suffix ignored', 'sourcer/translator.py', "        ignore_case = tree.value.endswith(('i', 'I'))\n        value = ast.literal_eval(tree.value[:-1] if ignore_case else tree.value)", "        ignore_case = tree.value.endswith(('i', 'I'))\n        value = ast.literal_eval(tree.value[:-1] if ignore_case else tree.value)\n        ignore_case = tree.value.endswith('i')"),
  ('Choice constructor not flattened + reversed', 'sourcer/expressions/choice.py', "    def __init__(self, *exprs):\n        self.exprs = exprs", "    def __init__(self, *exprs):\n        self.exprs = exprs if len(exprs) < 3 else (exprs[0], exprs[2], exprs[1]) + tuple(exprs[3:])"),
  ('Left constructor = Right', 'sourcer/expressions/sugar.py', "def Left(expr1, expr2):\n    return Discard(expr1, expr2, discard_left=False)", "def Left(expr1, expr2):\n    return Discard(expr1, expr2, discard_left=True)"),
  ('List max_len off by one in ctor', 'sourcer/expressions/list.py', "        self.max_len = max_len\n        _check", "        self.max_len = max_len + 1 if isinstance(max_len, int) and not isinstance(max_len, bool) else max_len\n        _check"),
  ('infix /? loses trailer', 'sourcer/translator.py', "            '/?': lambda a, b: ex.Sep(a, b, allow_trailer=True),", "            '/?': lambda a, b: ex.Sep(a, b, allow_trailer=False),"),
  ('where and |> swapped', 'sourcer/translator.py', "            '<|': lambda a, b: ex.Apply(a, b, apply_left=True),", "            '<|': lambda a, b: ex.Apply(a, b, apply_left=False),"),
 ],
 'C13': [
  ('derived ctx aliases parent', 'sourcer/translator.py', "        out += Code('_ctx = _Context()')\n", "        out += Code('_ctx = _Context()' if parsed.extends is None else '_ctx = _super_ctx')\n"),
  ('override also written to super ctx', 'sourcer/translator.py', "                out += Code(f'_ctx.{impl_name} = {impl_name}')\n                visited_names.add(rule.name)", "                out += Code(f'_ctx.{impl_name} = {impl_name}')\n                if parsed.extends is not None:\n                    out += Code(f'_super_ctx.{impl_name} = {impl_name}')\n                visited_names.add(rule.name)"),
  ('revert F13a', 'sourcer/translator.py', "            out += Code('_ctx.__dict__.update(_super_ctx.__dict__)')\n", ""),
  ('revert F13b skip progress', 'sourcer/expressions/skip.py', "with out.IF(Code(STATUS, ' and ', POS != checkpoint)):", "with out.IF(STATUS):"),
  ('revert F13c', 'sourcer/expressions/ref.py', "        return self.resolved.startswith('_super_ctx.')", "        return False"),
  ('revert F13d', 'sourcer/grammar.py', "    sys.modules[name] = module\n\n    if '.' not in name:\n        return", "    if '.' not in name:\n        sys.modules[name] = module\n        return"),
  ('revert late-bound args', 'sourcer/expressions/ref.py', "        if flags.uses_context and not self.is_local and not self.is_super:\n            return Code(f'_ctx.{self.resolved}')\n        return Code(self.resolved)", "        return Code(self.resolved)"),
  ('revert grandparent refs', 'sourcer/translator.py', "        extends = extends.extends\n", "        extends = None\n"),
  ('early binding of rule refs', 'sourcer/expressions/ref.py', "        if flags.uses_context and not self.is_local and not self.is_super:\n            func = Code(f'_ctx.{self.resolved}')", "        if flags.uses_context and not self.is_local and not self.is_super and not self.resolved.startswith('_try_I'):\n            func = Code(f'_ctx.{self.resolved}')"),
  ('derived start without leading skip', 'sourcer/translator.py', "    if ignored or super_has_ignore:\n        # If we have a start rule", "    if ignored:\n        # If we have a start rule"),
  ('super ignore dropped when derived declares ignore', 'sourcer/translator.py', "        if super_has_ignore:\n            super_ignored = Ref('super._ignored')", "        if super_has_ignore and len(ignored) < 1:\n            super_ignored = Ref('super._ignored')"),
  ('module installed before compile (name reuse)', 'sourcer/grammar.py', "    if parsed.name:\n        _install_module(name, module)\n\n    return module", "    if parsed.name:\n        _install_module(name, module)\n        if parsed.extends is not None:\n            _install_module(parsed.extends.name, module)\n\n    return module"),
 ],
 'C17': [
  ('seq num_blocks 0', 'sourcer/expressions/seq.py', "    is_commented = False\n    num_blocks = 2\n", "    is_commented = False\n    num_blocks = 0\n"),
  ('has_available_blocks() without count', 'sourcer/expressions/base.py', "        if not out.has_available_blocks(self.num_blocks):", "        if not out.has_available_blocks():"),
  ('revert F20', 'sourcer/expressions/base.py', "            out += (STATUS, RESULT, POS) << Code('(yield from ', func(*params), ')')", "            out += (STATUS, RESULT, POS) << func(*params)"),
  ('helper forgets ctx in named grammars', 'sourcer/expressions/base.py', "        extras = ['_ctx'] if flags.uses_context else []\n        params = extras + [str(TEXT), str(POS)] + list(sorted(self.freevars()))", "        extras = ['_ctx'] if flags.uses_context and not is_generator else []\n        params = extras + [str(TEXT), str(POS)] + list(sorted(self.freevars()))"),
  ('let num_blocks 0', 'sourcer/expressions/let.py', "    defines_local = True\n    num_blocks = 1", "    defines_local = True\n    num_blocks = 0"),
  ('list num_blocks 1', 'sourcer/expressions/list.py', "class List(Expression):\n    num_blocks = 2", "class List(Expression):\n    num_blocks = 1"),
  ('spilled helper loses result on failure', 'sourcer/expressions/base.py', "                method = out.YIELD if is_generator else out.RETURN\n                method((STATUS, RESULT, POS))", "                method = out.YIELD if is_generator else out.RETURN\n                method((STATUS, RESULT, POS) if is_generator else Code('(', STATUS, ', ', RESULT, ' if ', STATUS, ' else None, ', POS, ')'))"),
  ('run recursion for nested calls', 'sourcer/translator.py', "            gtor = result[1](${ctx}text, result[2])\n            stack.append((result, gtor))\n            result = None", "            if len(stack) % 2500 == 2499:\n                raise RecursionError('maximum parse depth exceeded')\n            gtor = result[1](${ctx}text, result[2])\n            stack.append((result, gtor))\n            result = None"),
 ],
 'C18': [
  ('linecol cache by len', 'sourcer/translator.py', "def _map_index_to_line_and_column(text):\n    line_numbers = []", "_LC = {}\ndef _map_index_to_line_and_column(text):\n    if len(text) in _LC: return _LC[len(text)]\n    _LC[len(text)] = r = _map2(text)\n    return r\ndef _map2(text):\n    line_numbers = []"),
  ('module-level memo', 'sourcer/translator.py', "def _run(${ctx}text, pos, start, fullparse):\n    memo = {}", "_MEMO = {}\ndef _run(${ctx}text, pos, start, fullparse):\n    memo = _MEMO.setdefault(id(text), {})"),
  ('memo keyed by text hash kept across calls', 'sourcer/translator.py', "def _run(${ctx}text, pos, start, fullparse):\n    memo = {}", "_MEMO = {}\ndef _run(${ctx}text, pos, start, fullparse):\n    memo = _MEMO.setdefault(len(text), {}) if fullparse else {}"),
  ('revert F17', 'sourcer/translator.py', "        if pos_info and not isinstance(pos_info, _PositionInfo):", "        if pos_info:"),
  ('shared result register across nested runs', 'sourcer/translator.py', "def _run(${ctx}text, pos, start, fullparse):\n    memo = {}\n    result = None\n", "_LAST = [None]\ndef _run(${ctx}text, pos, start, fullparse):\n    memo = {}\n    result = None\n    _LAST[0] = text\n"),
  ('error message cached per rule', 'sourcer/translator.py', "        pos = result[2]\n        message = result[1](text, pos)\n        raise ParseError(message, pos)", "        pos = result[2]\n        _c = _run.__dict__.setdefault('msgs', {})\n        if (result[1], pos) not in _c:\n            try:\n                result[1](text, pos)\n            except ParseError as e:\n                _c[(result[1], pos)] = e\n        raise _c[(result[1], pos)]"),
  ('partial excerpt from previous text', 'sourcer/translator.py', "        excerpt = _extract_excerpt(text, pos, col)\n        raise PartialParseError(nodes, position, excerpt)", "        _e = _finalize_parse_info.__dict__\n        excerpt = _e.get('last') if _e.get('key') == (len(text), pos) else _extract_excerpt(text, pos, col)\n        _e['last'], _e['key'] = excerpt, (len(text), pos)\n        raise PartialParseError(nodes, position, excerpt)"),
  ('install module replaces parent attr of old module', 'sourcer/grammar.py', "    sys.modules[name] = module\n", "    old = sys.modules.get(name)\n    if old is not None and hasattr(old, '_run'):\n        old.__dict__.update({k: v for k, v in module.__dict__.items() if k.startswith('_try_')})\n    sys.modules[name] = module\n"),
 ],
 'C20': [
  ('entry prefix parse_', 'sourcer/expressions/rule.py', "entry_name = f'_parse_{self.name}'", "entry_name = f'parse_{self.name}'"),
  ('impl prefix try_', 'sourcer/expressions/utils.py', "    return f'_try_{name}'", "    return f'try_{name}'"),
  ('unnumbered temporary in Str', 'sourcer/expressions/str.py', "        end = out.var('end', POS + len(self.value))", "        end = Code('endpos')\n        out += end << (POS + len(self.value))"),
  ('runtime calls sorted', 'sourcer/translator.py', "    for node in visit(nodes):\n        pos_info = node._metadata.position_info", "    for node in sorted(visit(nodes), key=id):\n        pos_info = node._metadata.position_info"),
  ('helper prefix without underscore', 'sourcer/expressions/base.py', "        name = f'_parse_function_{self.program_id}'", "        name = f'parse_function_{self.program_id}'"),
  ('error func prefix', 'sourcer/expressions/base.py', "        return Code(f'_raise_error{self.program_id}')", "        return Code(f'raise_error{self.program_id}')"),
  ('ctx param named ctx', 'sourcer/expressions/rule.py', "        extra_params = ['_ctx'] if flags.uses_context else []\n        params = extra_params + [str(TEXT), str(POS)] + (self.params or [])\n        impl_name", "        extra_params = ['_ctx'] if flags.uses_context else []\n        params = extra_params + [str(TEXT), str(POS)] + (self.params or [])\n        if 'memo' in (self.params or []):\n            params = params[:-len(self.params)] + ['_memo' if p == 'memo' else p for p in self.params]\n        impl_name"),
 ],
 'C11': [
  ('helper forgets ctx when generator', 'sourcer/expressions/base.py', "        extras = ['_ctx'] if flags.uses_context else []\n        params = extras + [str(TEXT), str(POS)] + list(sorted(self.freevars()))", "        extras = ['_ctx'] if flags.uses_context and not is_generator else []\n        params = extras + [str(TEXT), str(POS)] + list(sorted(self.freevars()))"),
  ('include_source changes block budget', 'sourcer/grammar.py', "    builder = translator.generate_source_code(docstring, parsed)\n", "    builder = translator.generate_source_code(docstring, parsed)\n    if include_source: builder._max_num_blocks = 12\n"),
  ('named grammars other block budget', 'sourcer/translator.py', "    out = CodeBuilder()\n    out.add_docstring(docstring)", "    out = CodeBuilder(max_num_blocks=20 if parsed.name is None else 12)\n    out.add_docstring(docstring)"),
  ('runtime needs sourcer at import', 'sourcer/translator.py', "from collections import namedtuple as _nt\nfrom re import compile", "from collections import namedtuple as _nt\nimport sourcer as _sourcer_pkg\nfrom re import compile"),
  ('named class parse uses module global ctx late', 'sourcer/expressions/class_.py', "                out.RETURN(Code(f'_run({ctx}text, pos, {parse_func}, fullparse)'))", "                out.RETURN(Code(f'_run({ctx}text, pos, {parse_func}, fullparse)' if not flags.uses_context else f'_run({ctx}text, 0, {parse_func}, fullparse)'))"),
  ('revert F08 cutoff', 'sourcer/expressions/base.py', "        if len(params) <= cutoff:\n            return func\n        else:\n            _ParseFunction = Code('_ParseFunction')\n            value = _ParseFunction(func, tuple(params[cutoff:]), ())", "        if len(params) <= 3:\n            return func\n        else:\n            _ParseFunction = Code('_ParseFunction')\n            value = _ParseFunction(func, tuple(params[2:]), ())"),
 ],
 'C12': [
  ('grammar.txt edited without regeneration: wrap drops leading newline skip', 'grammar.txt', "wrap(x) => Skip(Newline) >> x << Skip(Newline)", "wrap(x) => x << Skip(Newline)"),
  ('grammar.txt: let keyword optional sign', 'grammar.txt', "    name: kw(\"let\") >> Name << wrap(\"=>\" | \"=\" | \":\")", "    name: kw(\"let\") >> Name << wrap(\"=>\" | \"=\" | \":\" | \"<-\")"),
  ('Skip restores only when more exprs', 'sourcer/expressions/skip.py', "                if expr.can_partially_succeed():\n                    with out.ELSE():", "                if expr.can_partially_succeed() and len(self.exprs) > 1:\n                    with out.ELSE():"),
  ('id-dependent generated names', 'sourcer/expressions/base.py', "        name = f'_parse_function_{self.program_id}'", "        name = f'_parse_function_{id(self) % 100000}'"),
  ('Sep allow_empty False ignored', 'sourcer/expressions/sep.py', "        else:\n            with out.IF(staging):\n                out.extend(success)", "        else:\n            out.extend(success)"),
  ('opt bool apply broken for empty', 'sourcer/expressions/opt.py', "            out += RESULT << None\n", "            out += RESULT << ''\n"),
  ('postfix rows longest->first', 'sourcer/expressions/operator_table.py', "            postfixes=combine(postfixes),", "            postfixes=(postfixes[0] if postfixes else None),"),
  ('dict iteration order in codegen (set of freevars unsorted)', 'sourcer/expressions/base.py', "list(sorted(self.freevars()))", "list(self.freevars())"),
 ],
 'C03': [
  ('sep drop pop', 'sourcer/expressions/sep.py', "                    with out.IF(staging):\n                        out += staging.pop()\n", "                    pass\n"),
  ('sep require_separator empty', 'sourcer/expressions/sep.py', "Code(f'not {staging} or {saw_separator}')", "Code(f'{saw_separator}')"),
  ('max_len before append', 'sourcer/expressions/list.py', "                with out.IF(LEN(staging) == Code(self.max_len)):", "                with out.IF(LEN(staging) + 1 == Code(self.max_len)):"),
  ('min 1 shortcut for symbolic', 'sourcer/expressions/list.py', "        if self.min_len == 1 or self.min_len == '1':\n            condition = staging", "        if self.min_len == 1 or self.min_len == '1' or not str(self.min_len).isdigit():\n            condition = staging"),
  ('revert F03', 'sourcer/expressions/list.py', "                with out.IF(LEN(staging) >= Code(self.max_len)):\n                    out += BREAK\n", "                pass\n"),
  ('sep trailer checkpoint always', 'sourcer/expressions/sep.py', "            if self.allow_trailer:\n                out += checkpoint << POS", "            if self.allow_trailer or not self.discard_separators:\n                out += checkpoint << POS"),
  ('sep allow_empty ignored w/ require', 'sourcer/expressions/sep.py', "        elif self.require_separator:\n            with out.IF(saw_separator):", "        elif self.require_separator:\n            with out.IF(Code(f'not {staging} or {saw_separator}')):"),
 ],
}

def sh(cmd, **kw):
    return subprocess.run(cmd, shell=True, capture_output=True, text=True, **kw)

def main():
    cid = sys.argv[1]
    filt = sys.argv[2:]
    sh('git -C /repo worktree remove --force %s' % WT)
    r = sh('git -C /repo worktree add --detach %s HEAD' % WT)
    if r.returncode: print(r.stderr); return 2
    try:
        for label, path, old, new in M[cid]:
            if filt and not any(f in label for f in filt): continue
            p = os.path.join(WT, path)
            s = open(p).read()
            if old not in s:
                print('%-40s PATTERN NOT FOUND' % label); continue
            open(p, 'w').write(s.replace(old, new, 1))
            try:
                try:
                    t = sh('cd %s && timeout 120 /venv/bin/python -m pytest -q -x -p no:cacheprovider 2>&1 | tail -1' % WT, timeout=150)
                    tests = t.stdout.strip()[:40]
                except subprocess.TimeoutExpired:
                    tests = 'TIMEOUT'
                t0 = time.time()
                c = sh('cd %s && VERIF_REPO=%s ./check %s --tier quick' % (ROOT, WT, cid), timeout=1200)
                viol = [l for l in c.stdout.split('\n') if l.startswith('mismatch')]
                verdict = {0: 'MISSED', 1: 'CAUGHT', 2: 'HARNESS-ERROR'}.get(c.returncode, str(c.returncode))
                print('%-40s tests: %-28s check: %-8s %4.0fs %s' % (label, tests, verdict, time.time() - t0, (viol[0][10:170] if viol else c.stderr[-200:].replace('\n', ' '))), flush=True)
            finally:
                open(p, 'w').write(s)
    finally:
        sh('git -C /repo worktree remove --force %s' % WT)

if __name__ == '__main__':
    sys.exit(main())
