from vlib import peg, expand


def run():
    assert expand.rename_py('lambda v: (v, x.x, f(x=x))', {'x': 'q'}) == 'lambda v: (v, q.x, f(x=q))'
    assert expand.rename_py('len(x) + 1', {'x': 'yy'}) == 'len(yy) + 1'
    g = peg.G([('rule', 'T', ['x', 'y'], ('seq', [('ref', 'x'), ('py', 'y'), ('ref', 'x')])),
               ('rule', 'start', None, ('call', 'T', [('choice', [('lit', 'a'), ('lit', 'b')])], [('y', ('py', '7'))]))])
    gx = expand.expand_grammar(g)
    assert not any(x[0] == 'call' for r in gx.rules for e in peg.rule_exprs(r) for x in peg.walk(e)), peg.render(gx)
    assert all(r[2] is None for r in gx.rules)
    for t in ('ab', 'a', 'ba', 'bb'):
        assert peg.Interp(g, t).run_rule('start') == peg.Interp(gx, t).run_rule('start')
    assert expand.normalise(('OK', "<CP__x12 a=<CP__x3>>", 2)) == ('OK', '<CP a=<CP>>', 2)


if __name__ == '__main__':
    run()
    print('ok')
