#!/usr/bin/env python3
"""Regression over the kept seeded changes: applies each seeded/<name>/patch.diff to a scratch
worktree of /repo's HEAD and re-runs the checks that caught it when it was recorded.
usage: tools/reseed.py [name...]   (prints one line per seed; scratch worktree /tmp/wt_reseed is removed)"""
import json, os, subprocess, sys, time
ROOT = os.path.dirname(os.path.dirname(os.path.abspath(__file__)))
WT = '/tmp/wt_reseed'


def sh(*a, **kw):
    return subprocess.run(a, capture_output=True, text=True, **kw)


names = sys.argv[1:] or sorted(os.listdir(os.path.join(ROOT, 'seeded')))
for name in names:
    d = os.path.join(ROOT, 'seeded', name)
    meta = json.load(open(os.path.join(d, 'meta.json')))
    sh('git', '-C', '/repo', 'worktree', 'remove', '--force', WT)
    sh('git', '-C', '/repo', 'worktree', 'add', '-q', '--detach', WT, 'HEAD')
    r = sh('git', '-C', WT, 'apply', os.path.join(d, 'patch.diff'))
    if r.returncode:
        print('%-7s patch no longer applies to HEAD' % name, flush=True)
        continue
    caught_by = [c for c, v in meta.get('checks', {}).items() if v.get('verdict') == 'caught'] or [meta['property']]
    out = []
    for c in caught_by:
        t0 = time.time()
        env = dict(os.environ, VERIF_REPO=WT, VERIF_NO_EVIDENCE='1')
        r = sh(os.path.join(ROOT, 'check'), c, '--tier', 'quick', env=env, cwd=ROOT)
        verdict = 'caught' if (r.returncode == 1 and 'VIOLATION property=%s' % c in r.stdout) else ('missed' if r.returncode == 0 else 'exit%d' % r.returncode)
        out.append('%s %s %ds' % (c, verdict, time.time() - t0))
    print('%-7s %s' % (name, '; '.join(out)), flush=True)
sh('git', '-C', '/repo', 'worktree', 'remove', '--force', WT)
