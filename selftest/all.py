"""Oracle self-tests run by setup_cmd.  Exit 2 when an oracle is wrong."""
import sys, traceback
def main():
    try:
        from selftest import test_peg, test_optab, test_expand
        test_peg.run()
        test_optab.run()
        test_expand.run()
    except Exception:
        traceback.print_exc()
        return 2
    print('selftest ok')
    return 0
if __name__ == '__main__':
    sys.exit(main())
