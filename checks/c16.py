"""C16 - transform rewrites bottom-up, once per node, preserving metadata.
Oracle: an independent bottom-up rewrite producing (result, call log, expected metadata).
DESIGN.md 4/C16."""
import sys

from vlib import runner, sut, trees, peg
from vlib.runner import Check, Result, h64
from checks.c14 import shrink_specs, metadata_list

CLASSES = ['K0', 'K1', 'K2', 'K3', 'J1', 'J2', 'Infix', 'Prefix', 'Postfix']
NARGS = {'K0': 0, 'K1': 1, 'K2': 2, 'K3': 3, 'J1': 1, 'J2': 2, 'Infix': 3, 'Prefix': 2, 'Postfix': 2}


def make_callback(mod, spec, log, index):
    kind = spec[0]

    def cb(n):
        log.append((index, id(n), peg.canon(n)))
        if kind in ('id', 'log'):
            return n
        if not trees.is_obj(n) or type(n).__name__ != spec[1]:
            return n
        if kind == 'to_cls':
            fields = [getattr(n, f) for f in n._fields]
            args = (fields + [None, None, None])[:NARGS[spec[2]]]
            return getattr(mod, spec[2])(*args)
        if kind == 'to_str':
            return 'S<%s>' % spec[1]
        if kind == 'to_list':
            return [getattr(n, f) for f in n._fields]
        if kind == 'wrap':
            return mod.K1(n)
        if kind == 'to_const':
            # replacing a node by None / a falsy value is how a callback deletes it
            return [None, 0, False, '', [], ()][spec[2]]
        raise ValueError(kind)
    return cb


def ref_transform(mod, node, cbs):
    """Independent reference (recursive; trees here are small)."""
    if isinstance(node, list):
        return [ref_transform(mod, x, cbs) for x in node]
    if not trees.is_obj(node):
        return node
    new = [ref_transform(mod, getattr(node, f), cbs) for f in node._fields]
    if any(a is not getattr(node, f) for a, f in zip(new, node._fields)):
        cur = type(node)(*new)
        cur._metadata.position_info = node._metadata.position_info
    else:
        cur = node
    for f in cbs:
        prev = cur
        cur = f(prev)
        if cur is not prev and trees.is_obj(prev) and trees.is_obj(cur) and len(cur._metadata) == 0:
            cur._metadata.position_info = prev._metadata.position_info
    return cur


def set_metadata(root):
    i = 0
    stack = [root]
    seen = set()
    while stack:
        x = stack.pop()
        if trees.is_obj(x):
            if id(x) in seen:
                continue
            seen.add(id(x))
            x._metadata.position_info = ('P', i)
            i += 1
            stack.extend(getattr(x, f) for f in reversed(x._fields))
        elif isinstance(x, (list, tuple)):
            stack.extend(reversed(x))
        elif isinstance(x, dict):
            stack.extend(reversed(list(x.values())))


def run_case(mod, case):
    spec = case['spec']
    if case.get('parsed'):
        root = mod.parse(trees.to_text(spec))
        root2 = mod.parse(trees.to_text(spec))
    else:
        root = trees.build(spec, mod)
        root2 = trees.build(spec, mod)
        if case.get('metadata', True):
            set_metadata(root)
            set_metadata(root2)
    snap = trees.snapshot(root)
    log_real, log_ref = [], []
    cbs_real = [make_callback(mod, c, log_real, i) for i, c in enumerate(case['callbacks'])]
    cbs_ref = [make_callback(mod, c, log_ref, i) for i, c in enumerate(case['callbacks'])]
    try:
        got = mod.transform(root, *cbs_real)
    except Exception as e:
        return ('transform-raises:' + type(e).__name__, str(e)[:120]), root
    if trees.snapshot(root) != snap:
        return ('input-modified', ''), root
    if not case['callbacks']:
        if got is not root:
            return ('no-callbacks-not-identity', ''), root
        return None, root
    want = ref_transform(mod, root2, cbs_ref)
    lr = [(i, c) for i, _, c in log_real]
    lw = [(i, c) for i, _, c in log_ref]
    if lr != lw:
        k = next((j for j, (a, b) in enumerate(zip(lr, lw)) if a != b), min(len(lr), len(lw)))
        return ('call-log', 'calls real=%d ref=%d first difference at %d: %r vs %r' % (
            len(lr), len(lw), k, lr[k:k + 1], lw[k:k + 1])), root
    if peg.canon(got) != peg.canon(want):
        return ('result', '%s vs %s' % (peg.canon(got)[:200], peg.canon(want)[:200])), root
    if all(c[0] in ('id', 'log') for c in case['callbacks']) and not trees.same(got, root):
        return ('identity-callback-changes-result', ''), root
    if metadata_list(got) != metadata_list(want):
        return ('metadata', '%r vs %r' % (metadata_list(got)[:6], metadata_list(want)[:6])), root
    # leaves, tuples and dicts pass through by identity
    def passthrough(a, b):
        stack = [(a, b)]
        while stack:
            x, y = stack.pop()
            if trees.is_obj(x) and trees.is_obj(y) and type(x) is type(y):
                stack.extend((getattr(x, f), getattr(y, f)) for f in x._fields)
            elif isinstance(x, list) and isinstance(y, list) and len(x) == len(y):
                stack.extend(zip(x, y))
            elif isinstance(x, (tuple, dict)) and x is not y and all(c[0] in ('id', 'log') for c in case['callbacks']):
                return False
        return True
    if not passthrough(root, got):
        return ('tuple-or-dict-not-passed-through', ''), root
    return None, root


def replaced_below_root(spec, callbacks):
    targets = {c[1] for c in callbacks if c[0] not in ('id', 'log')}
    if not targets:
        return False
    name = {'obj': None, 'infix': 'Infix', 'prefix': 'Prefix', 'postfix': 'Postfix'}
    stack = [(spec, 0)]
    while stack:
        s, d = stack.pop()
        k = s[0]
        nm = s[1] if k == 'obj' else name.get(k)
        if nm in targets and d > 0:
            return True
        if k == 'obj':
            stack.extend((c, d + 1) for c in s[2])
        elif k == 'list':
            stack.extend((c, d + 1) for c in s[1])
        elif k == 'infix':
            stack.extend([(s[1], d + 1), (s[3], d + 1)])
        elif k == 'prefix':
            stack.append((s[2], d + 1))
        elif k == 'postfix':
            stack.append((s[1], d + 1))
    return False


class C16(Check):
    id = 'C16'
    technique = 'PBT: hypothesis trees x callback lists; independent bottom-up rewrite with call log and expected metadata'
    rule = ('cases = (tree, callback list): trees as in C14/C15 (constructed with a unique position marker on every '
            'node, or parsed, carrying real spans); 0-3 callbacks drawn from identity, log-only, replace instances of '
            'class K by a fresh object of another class / by a string / by a list, wrap in a new object. The real call '
            'log (callback index, canonical argument), the result, the metadata of every result node, pass-through '
            'of tuples/dicts and the untouched input are compared with an independent bottom-up rewrite. Non-trivial iff '
            'some node below the root is replaced (so ancestors are rebuilt) with metadata present; distinct by (spec, callbacks).')
    assumptions = ['callbacks return their argument or fresh values (returning an existing descendant is ambiguous, excluded)']
    budget_quick = 120
    budget_thorough = 1200

    def tasks(self, tier, seed):
        n = 16 if tier == 'quick' else 64
        per = 2000 if tier == 'quick' else 15000
        return [('hyp', seed * 1000003 + s, per) for s in range(n)]

    def run_task(self, task):
        from hypothesis import given, settings, seed, HealthCheck, Phase, strategies as st
        res = Result()
        mod = trees.get_module()
        _, s, n = task
        cb = st.one_of(
            st.just(('id',)), st.just(('log',)),
            st.tuples(st.just('to_cls'), st.sampled_from(CLASSES), st.sampled_from(CLASSES)),
            st.tuples(st.just('to_str'), st.sampled_from(CLASSES)),
            st.tuples(st.just('to_list'), st.sampled_from(CLASSES)),
            st.tuples(st.just('wrap'), st.sampled_from(CLASSES)),
            st.tuples(st.just('to_const'), st.sampled_from(CLASSES), st.sampled_from([0, 0, 0, 1, 2, 3, 4, 5])),
        )
        cbs = st.lists(cb, min_size=0, max_size=3)

        @seed(s)
        @settings(max_examples=n, database=None, deadline=None, phases=[Phase.generate],
                  suppress_health_check=list(HealthCheck), report_multiple_bugs=False)
        @given(st.integers(0, 2), cbs, st.data())
        def prop(parsed, callbacks, data):
            parsed = parsed == 0
            spec = data.draw(trees.spec_strategy(max_leaves=14, parseable=parsed))
            case = {'spec': spec, 'parsed': parsed, 'callbacks': callbacks}
            if runner.over_budget(res):
                return
            res.evals += 1
            bad, root = run_case(mod, case)
            res.hist['ncallbacks_%d' % len(callbacks)] += 1
            if replaced_below_root(spec, callbacks):
                res.nontrivial.add(h64(repr(case)))
                res.hist['nontrivial'] += 1
                if len(res.samples) < 1:
                    res.sample({'tree': trees.safe_repr(root)[:250], 'callbacks': callbacks})
            if bad:
                res.mismatch(case)
        try:
            prop()
        except runner.StopTask:
            pass
        return res

    def replay(self, case):
        mod = trees.get_module()
        bad, root = run_case(mod, case)
        if bad is None:
            return None
        return {'bucket': bad[0], 'detail': bad[1], 'tree': trees.safe_repr(root)[:400], 'callbacks': case['callbacks']}

    def shrink(self, case, still_fails, deadline):
        best = dict(case)
        i = 0
        while i < len(best['callbacks']):
            c = dict(best)
            c['callbacks'] = best['callbacks'][:i] + best['callbacks'][i + 1:]
            if still_fails(c):
                best = c
            else:
                i += 1
        return shrink_specs(best, still_fails, deadline, ('spec',))

    def describe(self, case):
        mod = trees.get_module()
        return {'tree': trees.safe_repr(trees.build(case['spec'], mod))[:800], 'callbacks': case['callbacks'],
                'parsed': case.get('parsed')}


if __name__ == '__main__':
    sys.exit(runner.main(C16()))
