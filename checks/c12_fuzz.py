#!/opt/veriftools/pyvenv/bin/python
"""Coverage-guided differential fuzz target for C12 (atheris/libFuzzer, tooling venv): the
shipped description parser (gen0, loaded from its file) against the parser regenerated from
grammar.txt (gen1, source written by the caller).  The oracle is inside the target: same
repr(tree) or same error class at the same index; a disagreement is saved and raised.

usage: c12_fuzz.py <gen0.py> <gen1.py> <out-dir> <corpus-dir> [libFuzzer flags...]"""
import os
import sys
import importlib.util

import atheris


def load(path, name):
    with atheris.instrument_imports():
        spec = importlib.util.spec_from_file_location(name, path)
        mod = importlib.util.module_from_spec(spec)
        sys.modules[name] = mod
        spec.loader.exec_module(mod)
    return mod


def outcome(mod, desc):
    try:
        return ('OK', repr(mod.parse(desc)))
    except mod.PartialParseError as e:
        return ('PARTIAL', e.last_position.index)
    except mod.ParseError as e:
        return ('FAIL', e.position.index)
    except RecursionError:
        return ('EXC', 'RecursionError')
    except Exception as e:          # the oracle must predict these too: both parsers must agree
        return ('EXC', type(e).__name__)


def main():
    gen0_path, gen1_path, out_dir, corpus = sys.argv[1:5]
    flags = sys.argv[5:]
    g0 = load(gen0_path, 'vf_gen0')
    g1 = load(gen1_path, 'vf_gen1')
    os.makedirs(out_dir, exist_ok=True)
    count = [0]

    def target(data):
        try:
            desc = data.decode('utf-8')
        except UnicodeDecodeError:
            desc = data.decode('latin-1')
        if len(desc) > 400:
            return
        a = outcome(g0, desc)
        b = outcome(g1, desc)
        if a != b:
            count[0] += 1
            with open(os.path.join(out_dir, 'disagreement-%d.txt' % count[0]), 'w', encoding='utf-8') as f:
                f.write(desc)
            raise RuntimeError('gen0 and gen1 disagree: %r vs %r on %r' % (a[:1], b[:1], desc[:80]))
    atheris.Setup([sys.argv[0]] + flags + [corpus], target)
    atheris.Fuzz()


if __name__ == '__main__':
    main()
