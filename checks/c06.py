"""C06 - parameterised rules behave like their expansion.
Oracle 1: reference interpreter (call = body evaluated with parameters bound to thunks /
values, no memo).  Oracle 2 (thorough and quick): AST-level expansion of non-recursive
templates compiled by sourcer itself.  DESIGN.md 4/C06."""
import re
import sys
import time

from vlib import runner, peg, gens, gens_rich, sut, shrink, diff, expand
from vlib.runner import Check, Result, h64


def nontrivial(ev):
    return bool(ev.get('nonliteral_argument') or ev.get('multi_instantiation_same_pos'))


def has_call(g, name):
    sub = diff.reachable_subgrammar(g, name)
    return any(x[0] == 'call' for r in sub.rules for e in peg.rule_exprs(r) for x in peg.walk(e))


# "recursively": a template that instantiates itself with an argument computed from its own parameter, as
# deep as the input asks for (the expansion is infinite, the value is known in closed form)
DEEP_RECURSION = [
    ('N(d) = "1" >> N(`d + 1`) << "2" | `d`\nstart = N(`0`)', False),
    ('N(d) = "1" >> N(d=`d + 1`) << "2" | `d`\nstart = N(d=`0`)', False),
    ('N(d) = "1" >> N(`d + 1`) << "2" | `d`\nstart = N(`0`)', True),
    ('N(p, d) = "1" >> N(p, `d + 1`) << "2" | [p, `d`]\nstart = N("x", `0`)', False),
]


def deep_case(i, depth):
    desc, named = DEEP_RECURSION[i]
    name = sut.fresh_name('vfc06d_') if named else None
    try:
        mod, err = sut.compile_grammar(('grammar %s\n' % name if named else '') + desc)
        if mod is None:
            return {'bucket': 'deep-recursion:compile', 'got': list(err)}
        text = '1' * depth + ('x' if i == 3 else '') + '2' * depth
        got = sut.run(mod, None, text, budget=120.0)
        want = ('OK', peg.canon(['x', depth] if i == 3 else depth), len(text))
        if got == want:
            return None
        return {'bucket': 'deep-recursion:%s' % (got[0] if got[0] != 'EXC' else 'EXC:' + got[1]), 'grammar': desc, 'named': named,
                'depth': depth, 'got': [str(x)[:100] for x in got], 'expected': list(want)}
    finally:
        if name:
            sut.forget(name)


class C06(Check):
    id = 'C06'
    technique = 'PBT: hypothesis template/call-site generator; reference interpreter with thunks + AST expansion compiled by sourcer; named and unnamed grammars'
    rule = ('cases = (grammar, header, entry, input); grammars from the scope-aware generator with a 12-template library '
            '(value, parser, mixed, recursive, forwarding, class templates) and 0-2 generated templates; call-site '
            'arguments: literals (value and parser), rule names, compound expressions capturing 0-2 call-site names, '
            'inline Python, earlier results of every type incl. lists/dicts, positional and keyword, nested calls; '
            'every grammar compiled with and without a `grammar <name>` header. Oracle 1: reference interpreter; oracle '
            '2: the same grammar with every non-recursive template call expanded on the AST (alpha-renamed body, parser '
            'arguments substituted, value arguments let-bound), compiled by sourcer, must agree. Non-trivial iff the '
            'reference trace contains a call with a non-literal argument, or two different instantiations of one '
            'template at one position; distinct by (rule text, header, input).')
    assumptions = ['none beyond the generators\' domain (F11 and F12 were repaired; their witnesses are replayed as regressions)']
    budget_quick = 170
    budget_thorough = 1500

    def tasks(self, tier, seed):
        n = 16 if tier == 'quick' else 64
        per = 40 if tier == 'quick' else 300
        deep = [('deep', i, 2000 if tier == 'quick' else 20000) for i in range(len(DEEP_RECURSION))]
        return [('hyp', seed * 1000003 + s, per) for s in range(n)] + deep

    def run_task(self, task):
        from hypothesis import given, settings, seed, HealthCheck, Phase, strategies as st
        res = Result()
        if task[0] == 'deep':
            _, i, depth = task
            res.evals += 1
            res.nontrivial.add(h64('deep', i, depth))
            if deep_case(i, depth) is not None:
                res.mismatch({'deep': i, 'depth': depth})
            return res
        _, s, n = task

        @seed(s)
        @settings(max_examples=n, database=None, deadline=None, phases=[Phase.generate],
                  suppress_health_check=list(HealthCheck), report_multiple_bugs=False)
        @given(st.integers(0, 4).flatmap(lambda m: gens_rich.rich_grammar(nrules=4, depth=3, mode='bytes' if m == 0 else 'text')),
               st.data())
        def prop(g, data):
            res.hist['mode_' + g.mode] += 1
            entries = [e for e in gens_rich.entry_points(g) if e[0] in 'RKsF' and has_call(g, e)]
            if not entries:
                res.hist['grammar_without_calls'] += 1
                return
            inputs = gens.all_inputs('ab12', 4) + data.draw(
                st.lists(st.text(alphabet='ab12Z', min_size=1, max_size=8), min_size=30, max_size=30))
            if g.mode == 'bytes':
                inputs = [t.encode('latin-1') for t in inputs]
            if runner.over_budget(res):
                return
            res.hist['grammars'] += 1
            named = sut.fresh_name('vfc06_')
            try:
                diff.eval_grammar(res, g, entries, inputs, nontrivial, 'c06-unnamed')
                diff.eval_grammar(res, g.copy(header=named), entries, inputs, nontrivial, 'c06-named')
            finally:
                sut.forget(named)
            # oracle 2: expansion
            self.check_expansion(res, g, entries, inputs)
        try:
            prop()
        except runner.StopTask:
            pass
        return res

    def check_expansion(self, res, g, entries, inputs):
        try:
            gx = expand.expand_grammar(g)
        except expand.CannotExpand as e:
            res.hist['expansion_skipped'] += 1
            return
        m1, e1 = sut.compile_grammar(peg.render(g))
        m2, e2 = sut.compile_grammar(peg.render(gx))
        if m1 is None:
            return            # reported by oracle 1
        if m2 is None:
            res.hist['expansion_compile_problem'] += 1
            res.mismatch({'g': peg.g_to_dict(g), 'entry': entries[0], 'text': inputs[0], 'oracle': 'expansion'})
            return
        for name in entries:
            for t in inputs[::3]:
                a = diff.run_confirmed(m1, name, t)
                b = diff.run_confirmed(m2, name, t)
                res.evals += 1
                res.hist['expansion_compared'] += 1
                if a[0] == 'HANG' and b[0] == 'HANG':
                    res.hist['expansion_both_hang'] += 1
                    return
                if expand.normalise(a) != expand.normalise(b):
                    res.mismatch({'g': peg.g_to_dict(diff.reachable_subgrammar(g, name)), 'entry': name, 'text': t,
                                  'oracle': 'expansion'})
                    if a[0] == 'HANG' or b[0] == 'HANG':
                        return

    def replay(self, case):
        if 'deep' in case:
            return deep_case(case['deep'], case['depth'])
        if case.get('oracle') == 'expansion':
            g = peg.g_from_dict(case['g'])
            try:
                gx = expand.expand_grammar(g)
            except expand.CannotExpand:
                return None
            m1, e1 = sut.compile_grammar(peg.render(g))
            m2, e2 = sut.compile_grammar(peg.render(gx))
            if m1 is None:
                return {'bucket': 'compile', 'got': list(e1), 'grammar': peg.render(g)}
            if m2 is None:
                return {'bucket': 'expansion-compile', 'got': list(e2), 'grammar': peg.render(g), 'expanded': peg.render(gx)}
            a = diff.run_confirmed(m1, case['entry'], case['text'])
            b = diff.run_confirmed(m2, case['entry'], case['text'])
            if expand.normalise(a) == expand.normalise(b):
                return None
            tag = lambda o: o[0] if o[0] != 'EXC' else 'EXC:' + o[1]
            return {'bucket': 'expansion:%s->%s' % (tag(b), tag(a)), 'with_templates': list(a), 'expanded': list(b),
                    'grammar': peg.render(g), 'expanded_grammar': peg.render(gx), 'input': repr(case['text'])}
        if case.get('named'):
            g = peg.g_from_dict(case['g'])
            name = sut.fresh_name('vfc06r_')
            c = dict(case)
            c['g'] = peg.g_to_dict(g.copy(header=name))
            try:
                return diff.replay_case(c)
            finally:
                sut.forget(name)
        m = diff.replay_case(case)
        if m is None and not case['g'].get('header'):
            # the same description under a grammar name
            g = peg.g_from_dict(case['g'])
            name = sut.fresh_name('vfc06r_')
            c = dict(case)
            c['g'] = peg.g_to_dict(g.copy(header=name))
            try:
                m = diff.replay_case(c)
                if m:
                    m['bucket'] = 'named:' + m['bucket']
            finally:
                sut.forget(name)
        return m

    def shrink(self, case, still_fails, deadline):
        if 'deep' in case:
            lo, hi = 1, case['depth']          # smallest depth that still fails
            while lo < hi and time.time() < deadline:
                mid = (lo + hi) // 2
                if still_fails(dict(case, depth=mid)):
                    hi = mid
                else:
                    lo = mid + 1
            return dict(case, depth=hi)

        def ok(c):
            g = peg.g_from_dict(c['g'])
            return c['entry'] in g.ruledict() and diff.wellformed(g) and still_fails(c)
        # drop the header name so that shrinking does not fight module-name reuse
        c0 = dict(case)
        if c0['g'].get('header'):
            g = dict(c0['g'])
            g['header'] = None
            c0['g'] = g
            if not still_fails(c0):
                return case
        return shrink.shrink_case(c0, ok, deadline)

    def describe(self, case):
        if 'deep' in case:
            return {'grammar': DEEP_RECURSION[case['deep']][0], 'named': DEEP_RECURSION[case['deep']][1],
                    'input': "'1' * %d + '2' * %d" % (case['depth'], case['depth'])}
        g = peg.g_from_dict(case['g'])
        return {'grammar': peg.render(g), 'entry': case['entry'], 'input': repr(case.get('text')),
                'oracle': case.get('oracle', 'reference')}

    def selftest(self):
        from selftest import test_peg, test_expand
        test_peg.run()
        test_expand.run()


if __name__ == '__main__':
    sys.exit(runner.main(C06()))
