"""C01 - generated parsers implement PEG semantics for the core expressions.
Oracle: the reference interpreter (vlib/peg.py).  See DESIGN.md section 4/C01."""
import sys
import time
import random

from vlib import runner, peg, gens, sut, shrink, diff
from vlib.runner import Check, Result, h64

PER_GRAMMAR = 40


def helper_rules():
    return list(gens.HELPER_RULES)


def nontrivial(ev):
    return bool(ev.get('fail_after_consume') or ev.get('alt_taken') or ev.get('rewind'))


def eval_grammar(res, g, entries, inputs, tag):
    return diff.eval_grammar(res, g, entries, inputs, nontrivial, tag)


reachable_subgrammar = diff.reachable_subgrammar
wellformed = diff.wellformed


class C01(Check):
    id = 'C01'
    technique = 'differential against a reference PEG interpreter; exhaustive shapes x all short inputs + hypothesis'
    rule = ('cases = (expression shape, input); shapes: every depth<=1 core expression in 13 exposing '
            'contexts x 3 continuations (exhaustive), a seeded stride through all depth-2 shapes, and '
            'hypothesis-generated multi-rule grammars to depth 5 (text and bytes mode); inputs: all '
            'strings of length<=4 (5 for contexts) over {a,b,Z}.  Non-trivial iff the reference trace has a '
            'sub-expression that failed after consuming >=1 character, a choice/Longest that selected a '
            'non-first alternative, or a lookahead that rewound >=1 character; distinct by '
            '(rendered rule, input).')
    assumptions = ['reference semantics of DESIGN.md Appendix A (validated by selftest against hand cases)',
                   'repetition/Skip bodies are non-nullable, no left recursion (by construction)']
    budget_quick = 150
    budget_thorough = 1500
    maxtasksperchild = 4

    def tasks(self, tier, seed):
        tasks = []
        rnd = random.Random(seed)
        d1 = {m: gens.enumerate_depth1(m) for m in ('text', 'bytes')}
        # part 2: exposing contexts, exhaustive over depth-1 X
        for mode in ('text', 'bytes'):
            n = len(d1[mode])
            step = 24
            for lo in range(0, n, step):
                tasks.append(('ctx', mode, lo, min(n, lo + step), 5 if tier == 'thorough' else 4,
                              3 if tier == 'thorough' else 2))
        # part 1: stride through depth-2 shapes
        total = gens.depth2_count(d1['text'])
        want = 16000 if tier == 'quick' else 400000
        chunk = 800
        for c in range(want // chunk):
            tasks.append(('d2', 'text' if c % 4 else 'bytes', rnd.randrange(total), rnd.randrange(1, 1 << 30) | 1, chunk))
        # part 3: hypothesis
        nh = 16 if tier == 'quick' else 64
        per = 60 if tier == 'quick' else 250
        for s in range(nh):
            tasks.append(('hyp', 'text' if s % 4 else 'bytes', seed * 1000003 + s, per))
        rnd.shuffle(tasks)
        return tasks

    def run_task(self, task):
        res = Result()
        kind = task[0]
        if kind == 'ctx':
            _, mode, lo, hi, L, nk = task
            d1 = gens.enumerate_depth1(mode)
            inputs = gens.all_inputs(gens.ALPHA, L, mode)
            exprs = []
            for x in d1[lo:hi]:
                for k in gens.KS[:nk]:
                    exprs.extend(gens.contexts(x, k))
            self._run_packed(res, exprs, mode, inputs, 'ctx')
        elif kind == 'd2':
            _, mode, start, stride, count = task
            d1 = gens.enumerate_depth1(mode)
            total = gens.depth2_count(d1)
            inputs = gens.all_inputs(gens.ALPHA, 4, mode)
            exprs = []
            idx = start
            for _ in range(count):
                e = gens.depth2_shape(idx % total, d1, mode)
                idx += stride
                if e is not None:
                    exprs.append(e)
                else:
                    res.hist['illformed_shape_skipped'] += 1
            self._run_packed(res, exprs, mode, inputs, 'd2')
        elif kind == 'hyp':
            self._run_hyp(res, task)
        return res

    def _run_packed(self, res, exprs, mode, inputs, tag):
        for i in range(0, len(exprs), PER_GRAMMAR):
            if runner.time_left() < 0:
                res.truncated = True
                return
            batch = exprs[i:i + PER_GRAMMAR]
            rules = helper_rules() + [('rule', 'X%03d' % j, None, e) for j, e in enumerate(batch)]
            rules.append(('rule', 'start', None, ('ref', 'X000')))
            g = peg.G(rules, mode=mode)
            eval_grammar(res, g, ['X%03d' % j for j in range(len(batch))], inputs, tag)

    def _run_hyp(self, res, task):
        from hypothesis import given, settings, seed, HealthCheck, Phase, strategies as st
        _, mode, s, n = task
        inputs3 = gens.all_inputs(gens.ALPHA, 3, mode)

        @seed(s)
        @settings(max_examples=n, database=None, deadline=None, derandomize=False,
                  phases=[Phase.generate], suppress_health_check=list(HealthCheck),
                  report_multiple_bugs=False)
        @given(gens.core_grammar(nrules=6, depth=5, mode=mode),
               st.lists(st.text(alphabet='abZ', min_size=4, max_size=9), min_size=4, max_size=10))
        def prop(g, longer):
            if runner.over_budget(res):     # (no draws inside this body)
                return
            extra = [t.encode('latin-1') if mode == 'bytes' else t for t in longer]
            entries = [r[1] for r in g.rules]
            eval_grammar(res, g, entries, inputs3 + extra, 'hyp')
            res.hist['hyp_grammars'] += 1
        try:
            prop()
        except runner.StopTask:
            pass

    def replay(self, case):
        return diff.replay_case(case)

    def shrink(self, case, still_fails, deadline):
        def wf_and_fails(c):
            g = peg.g_from_dict(c['g'])
            if c['entry'] not in g.ruledict():
                return False
            if not wellformed(g):
                return False
            return still_fails(c)
        return shrink.shrink_case(case, wf_and_fails, deadline)

    def describe(self, case):
        g = peg.g_from_dict(case['g'])
        return {'grammar': peg.render(g), 'entry': case['entry'], 'input': repr(case['text'])}

    def selftest(self):
        from selftest import test_peg
        test_peg.run()


if __name__ == '__main__':
    sys.exit(runner.main(C01()))
