"""AST-level delta debugging for grammar cases: drop rules, hoist children, drop list
items, shorten literals, shorten the input.  `still_fails(case)` re-checks the recorded
mismatch bucket; a shrink budget hit only means a larger replay file."""
import time
from . import peg


def _variants(n):
    """Smaller replacements for node n (not recursive)."""
    k = n[0]
    kids = peg.children(n)
    for c in kids:
        yield c
    if k in ('seq', 'choice', 'skip', 'longest') and len(n[1]) > 1:
        for i in range(len(n[1])):
            yield (k, n[1][:i] + n[1][i + 1:])
    if k in ('lit', 'ci') and len(n[1]) > 1:
        yield (k, n[1][:-1])
        yield (k, n[1][1:])
    if k == 'rep':
        _, e, lo, hi = n
        if isinstance(lo, int) and lo > 0:
            yield ('rep', e, lo - 1, hi)
        if isinstance(hi, int) and hi > 1 and (not isinstance(lo, int) or hi > lo):
            yield ('rep', e, lo, hi - 1)
        if hi is not None:
            yield ('rep', e, lo, None)
    if k == 'sep':
        for i in (3, 4, 5, 6):
            if n[i] != (i == 5):
                m = list(n)
                m[i] = (i == 5)
                if not (m[6] and not m[4]):
                    yield tuple(m)
    if k == 'call' and False:
        yield n


def _paths(n, prefix=()):
    yield prefix
    for i, c in enumerate(peg.children(n)):
        yield from _paths(c, prefix + (i,))


def _get(n, path):
    for i in path:
        n = peg.children(n)[i]
    return n


def _set(n, path, new):
    if not path:
        return new
    kids = peg.children(n)
    kids[path[0]] = _set(kids[path[0]], path[1:], new)
    return peg.rebuild(n, kids)


def shrink_case(case, still_fails, deadline, text_keys=('text',), gkey='g'):
    best = case

    def attempt(c):
        nonlocal best
        if time.time() > deadline:
            return False
        try:
            ok = still_fails(c)
        except Exception:
            ok = False
        if ok:
            best = c
        return ok

    progress = True
    while progress and time.time() < deadline:
        progress = False
        # inputs
        for tk in text_keys:
            t = best.get(tk)
            if t is None:
                continue
            i = 0
            while i < len(best[tk]) and time.time() < deadline:
                t = best[tk]
                c = dict(best)
                c[tk] = t[:i] + t[i + 1:]
                if attempt(c):
                    progress = True
                else:
                    i += 1
        if gkey not in best:
            continue
        # drop rules / ignores
        g = best[gkey]
        i = 0
        while i < len(best[gkey]['rules']) and time.time() < deadline:
            g = best[gkey]
            if len(g['rules']) <= 1:
                break
            g2 = dict(g)
            g2['rules'] = g['rules'][:i] + g['rules'][i + 1:]
            c = dict(best)
            c[gkey] = g2
            if attempt(c):
                progress = True
            else:
                i += 1
        i = 0
        while i < len(best[gkey].get('ignores', [])) and time.time() < deadline:
            g = best[gkey]
            g2 = dict(g)
            g2['ignores'] = g['ignores'][:i] + g['ignores'][i + 1:]
            c = dict(best)
            c[gkey] = g2
            if attempt(c):
                progress = True
            else:
                i += 1
        # expressions
        ri = 0
        while ri < len(best[gkey]['rules']) and time.time() < deadline:
            r = best[gkey]['rules'][ri]
            if r[0] == 'rule':
                slots = [None]
            else:
                slots = list(range(len(r[3])))
                # dropping class members
                mi = 0
                while mi < len(best[gkey]['rules'][ri][3]) and time.time() < deadline:
                    r = best[gkey]['rules'][ri]
                    if len(r[3]) <= 1:
                        break
                    r2 = (r[0], r[1], r[2], r[3][:mi] + r[3][mi + 1:])
                    g2 = dict(best[gkey])
                    g2['rules'] = best[gkey]['rules'][:ri] + [r2] + best[gkey]['rules'][ri + 1:]
                    c = dict(best)
                    c[gkey] = g2
                    if attempt(c):
                        progress = True
                    else:
                        mi += 1
                slots = list(range(len(best[gkey]['rules'][ri][3])))
            for slot in slots:
                changed = True
                while changed and time.time() < deadline:
                    changed = False
                    r = best[gkey]['rules'][ri]
                    if slot is None:
                        expr = r[3]
                    else:
                        if slot >= len(r[3]) or r[3][slot][0] == 'requires' and r[3][slot][2][0] != 'py':
                            break
                        expr = r[3][slot][2]
                    for path in list(_paths(expr)):
                        try:
                            node = _get(expr, path)
                        except IndexError:
                            continue
                        done = False
                        for v in _variants(node):
                            e2 = _set(expr, path, v)
                            if slot is None:
                                r2 = (r[0], r[1], r[2], e2)
                            else:
                                ms = list(r[3])
                                ms[slot] = (ms[slot][0], ms[slot][1], e2)
                                r2 = (r[0], r[1], r[2], ms)
                            g2 = dict(best[gkey])
                            g2['rules'] = best[gkey]['rules'][:ri] + [r2] + best[gkey]['rules'][ri + 1:]
                            c = dict(best)
                            c[gkey] = g2
                            if attempt(c):
                                progress = changed = done = True
                                break
                        if done:
                            break
            ri += 1
    return best
