"""C04 - ignored patterns are skipped exactly at token boundaries.
Oracle 1: reference interpreter with the documented skip placement.  Oracle 2
(metamorphic): lengthening a run of ignorable text that is already skipped changes no
parsed value.  DESIGN.md 4/C04."""
import sys

from vlib import runner, peg, gens, sut, shrink, diff
from vlib.runner import Check, Result, h64

IGN_POOL = [
    ('Space', ('rx', ' +')),
    ('Newline', ('lit', '\n')),
    ('Comment', ('rx', '#[^\\n]*')),
    ('Semi', ('lit', ';')),
    ('Tabs', ('rep', ('lit', '\t'), 1, None)),
    ('Pair', ('seq', [('lit', '<'), ('lit', '>')])),
]
IGN_ALPHA = ' \n#;\t<>'


def nontrivial(ev):
    return bool(ev.get('skip_lead') or ev.get('skip_in_lookahead') or ev.get('skip_trailing'))


def sees_line_ends(g):
    """'$' also matches in front of a final newline: such a token LOOKS at ignorable text, so the
    lengthening relation (whose premise is that tokens neither match nor look at it) does not apply."""
    for r in g.rules:
        for e in peg.rule_exprs(r):
            for x in peg.walk(e):
                if x[0] == 'rx' and '$' in (x[1] if isinstance(x[1], str) else x[1].decode('latin-1')):
                    return True
    return False


def data_flag_derived(desc_key):
    return h64('derived', desc_key) % 3 == 0


def compile_derived(g):
    """(module of a grammar that extends g and adds `ignore ";"`, names to forget)"""
    pname, cname = sut.fresh_name('vfc04p_'), sut.fresh_name('vfc04c_')
    pm, err = sut.compile_grammar(peg.render(g.copy(header=pname)))
    if pm is None:
        return None, [pname]
    cm, err = sut.compile_grammar('grammar %s extends %s\nignore %s\n' % (cname, pname, "b';'" if g.mode == 'bytes' else "';'"))
    return cm, [pname, cname]


def sprinkle(t):
    """';' after every second character and at both ends."""
    sep = b';' if isinstance(t, bytes) else ';'
    out = sep
    for i in range(0, len(t), 2):
        out += t[i:i + 2] + sep
    return out


def lengthen(t, run):
    """Duplicate the first character of a skipped run (stays ignorable for every pattern of
    the pool: ' ' / newline / '#...' / ';' / tab; the '<>' pair is duplicated whole)."""
    p, q = run
    if t[p:p + 1] in ('<', b'<'):
        return t[:p] + t[p:p + 2] + t[p:], 2
    return t[:p] + t[p:p + 1] + t[p:], 1


class C04(Check):
    id = 'C04'
    technique = 'PBT: hypothesis core grammars + 1-3 ignore declarations (named/anonymous, any position, class start rule, text+bytes); reference interpreter with documented skip placement + lengthen-run metamorphic relation'
    rule = ('cases = (grammar, entry, input); grammars: hypothesis core grammars (all C01 forms, text and bytes) with 1-3 '
            'ignore declarations drawn from 6 non-nullable patterns with distinct first characters (regex, literal, '
            'repetition, sequence), named or anonymous, `ignore`/`ignored`, placed before, between or after the rules, '
            'start rule spelled start/Start/START or being a class; inputs: all strings of length <= 4 over the token '
            'letters plus the ignorable characters in use, and random longer ones with ignorable runs; entries: the start '
            'rule, module-level parse and every other rule (no leading skip there). Oracle 1 compares with the reference '
            '(skip before the start rule\'s first expression and after every successful non-empty literal, nowhere else); '
            'oracle 2 lengthens up to 3 runs the reference skipped and demands the same value. Non-trivial iff a non-empty '
            'skip happened at the start, inside lookahead, or up to the end of input; distinct by (grammar text, entry, input).')
    assumptions = ['ignore patterns non-nullable with pairwise distinct first characters (a run of matches does not depend on their order)',
                   'metamorphic relation only for Backtrack-free grammars whose tokens cannot match ignorable characters']
    budget_quick = 170
    budget_thorough = 1500

    def tasks(self, tier, seed):
        n = 16 if tier == 'quick' else 64
        per = 160 if tier == 'quick' else 1000
        return [('hyp', seed * 1000003 + s, per) for s in range(n)]

    def run_task(self, task):
        from hypothesis import given, settings, seed, HealthCheck, Phase, strategies as st
        res = Result()
        _, s, n = task

        @seed(s)
        @settings(max_examples=n, database=None, deadline=None, phases=[Phase.generate],
                  suppress_health_check=list(HealthCheck), report_multiple_bugs=False)
        @given(st.integers(0, 4).flatmap(lambda m: gens.core_grammar(nrules=5, depth=4, mode='bytes' if m == 0 else 'text')),
               st.data())
        def prop(g, data):
            k = data.draw(st.integers(1, 3))
            idx = data.draw(st.permutations(range(len(IGN_POOL))))[:k]
            ign = []
            for i in idx:
                name, e = IGN_POOL[i]
                ign.append((name if data.draw(st.booleans()) else None, e))
            chars = ''.join(sorted({c for i in idx for c in {0: ' ', 1: '\n', 2: '#', 3: ';', 4: '\t', 5: '<>'}[i]}))
            # start rule variants
            variant = data.draw(st.sampled_from(['start', 'Start', 'START', 'class', 'class']))
            rules = [r for r in g.rules if r[1] != 'start']
            if variant == 'class':
                # the class may open with any kind of member: the leading skip belongs in front of it
                tokb = (lambda t: t.encode('latin-1')) if g.mode == 'bytes' else (lambda t: t)
                first = data.draw(st.sampled_from([
                    [('field', 'first', ('ref', 'R0'))],
                    [('let', 'konst', ('lit', 'a')), ('field', 'first', ('opt', ('ref', 'R0')))],
                    [('let', 'konst', ('lit', 'ab')), ('let', 'other', ('opt', ('lit', 'b'))), ('field', 'first', ('opt', ('ref', 'R0')))],
                    [('pass', None, ('lit', 'a')), ('field', 'first', ('opt', ('ref', 'R0')))],
                    [('field', 'lead', ('lit', 'b')), ('field', 'first', ('opt', ('ref', 'R0')))],
                    [('let', 'bound', ('ref', 'R0')), ('field', 'first', ('py', 'bound'))],
                    [('pass', None, ('opt', ('lit', 'b'))), ('field', 'first', ('ref', 'R0'))],
                ]))
                rules.append(('class', 'Start', None, first + [('field', 'second', ('opt', ('ref', 'R1')))]))
                sname = 'Start'
            else:
                rules.append(('rule', variant, None, ('ref', 'R0')))
                sname = variant
            g2 = g.copy(rules=rules, ignores=ign, ignore_pos=data.draw(st.integers(0, len(rules))))
            style = peg.Style(bits=data.draw(st.lists(st.integers(0, 5), min_size=40, max_size=40)))
            alpha = 'ab' + chars
            inputs = gens.all_inputs(alpha, 4 if len(alpha) <= 4 else 3, g.mode)
            longer = data.draw(st.lists(st.text(alphabet='aabbZ' + chars * 2, min_size=3, max_size=10),
                                        min_size=40, max_size=40))
            if g.mode == 'bytes':
                longer = [t.encode('latin-1') for t in longer]
            if runner.over_budget(res):
                return
            res.hist['start_' + variant] += 1
            res.hist['mode_' + g.mode] += 1
            res.hist['n_ignores_%d' % k] += 1
            entries = [sname, 'R0', 'R2']
            mod = diff.eval_grammar(res, g2, entries, inputs + longer, nontrivial, 'c04', key_whole=True)
            if mod is None:
                return
            # module-level parse == start rule
            for t in (inputs + longer)[::7]:
                a = sut.run(mod, None, t, budget=diff.QUICK_BUDGET)
                b = sut.run(mod, sname, t, budget=diff.QUICK_BUDGET)
                res.evals += 1
                if a != b:
                    res.mismatch({'g': peg.g_to_dict(g2), 'entry': sname, 'text': t, 'oracle': 'module-parse'})
                    break
            # through a grammar that extends this one and declares one more ignore pattern, the tokens
            # of the inherited rules are followed by both kinds of ignorable text
            if 3 not in idx and data_flag_derived(desc_key=peg.render(g2)):
                cm, names = compile_derived(g2)
                if cm is None:
                    res.mismatch({'g': peg.g_to_dict(g2), 'entry': sname, 'text': inputs[0], 'oracle': 'derived-ignore'})
                else:
                    res.hist['derived_ignore_grammars'] += 1
                    g3 = g2.copy(ignores=list(g2.ignores) + [(None, ('lit', ';'))])
                    for t in (inputs[1:] + longer)[::5]:
                        t3 = sprinkle(t)
                        try:
                            r3 = peg.Interp(g3, t3).run_rule(sname)
                        except (peg.StepLimit, peg.RefError, RecursionError):
                            continue
                        got = sut.run(cm, None, t3, budget=diff.QUICK_BUDGET)
                        res.evals += 1
                        if not sut.agrees(sut.expected(r3, t3), got):
                            res.mismatch({'g': peg.g_to_dict(g2), 'entry': sname, 'text': t3, 'oracle': 'derived-ignore'})
                            break
                for nm in names:
                    sut.forget(nm)
            # oracle 2: lengthen skipped runs
            if any(x[0] == 'backtrack' for r in g2.rules for e in peg.rule_exprs(r) for x in peg.walk(e)):
                return
            if 5 in idx:
                return      # the '<' '>' pair pattern has no simple "one character longer" variant
            if sees_line_ends(g2):
                return
            for t in (inputs + longer)[::3]:
                it = peg.Interp(g2, t)
                try:
                    r0 = it.run_rule(sname)
                except (peg.StepLimit, peg.RefError, RecursionError):
                    continue
                if r0 is None or not it.skip_runs:
                    continue
                base = diff.run_confirmed(mod, sname, t)
                for run in it.skip_runs[:3]:
                    t2, grow = lengthen(t, run)
                    got = diff.run_confirmed(mod, sname, t2)
                    res.evals += 1
                    res.hist['lengthened'] += 1
                    if base[0] in ('OK', 'PARTIAL') and not (got[0] in ('OK', 'PARTIAL') and got[1] == base[1]):
                        res.mismatch({'g': peg.g_to_dict(g2), 'entry': sname, 'text': t, 'oracle': 'lengthen',
                                      'run': list(run)})
                        break
        try:
            prop()
        except runner.StopTask:
            pass
        return res

    def replay(self, case):
        g = peg.g_from_dict(case['g'])
        if case.get('oracle') == 'module-parse':
            mod, err = sut.compile_grammar(peg.render(g))
            if mod is None:
                return {'bucket': 'compile', 'got': list(err)}
            a = sut.run(mod, None, case['text'])
            b = sut.run(mod, case['entry'], case['text'])
            if a == b:
                return None
            return {'bucket': 'module-parse-differs-from-start-rule', 'module': list(a), 'start': list(b),
                    'grammar': peg.render(g), 'input': repr(case['text'])}
        if case.get('oracle') == 'derived-ignore':
            cm, names = compile_derived(g)
            try:
                if cm is None:
                    return {'bucket': 'derived-ignore-compile', 'grammar': peg.render(g)}
                g3 = g.copy(ignores=list(g.ignores) + [(None, ('lit', ';'))])
                t3 = case['text']
                try:
                    r3 = peg.Interp(g3, t3).run_rule(case['entry'])
                except (peg.StepLimit, peg.RefError, RecursionError):
                    return None
                got = diff.run_confirmed(cm, None, t3)
                exp = sut.expected(r3, t3)
                if sut.agrees(exp, got):
                    return None
                return {'bucket': 'derived-ignore:%s->%s' % (exp[0], got[0]), 'expected': list(exp), 'got': list(got),
                        'grammar': peg.render(g) + "# parsed through a grammar that extends it and adds: ignore ';'\n", 'input': repr(t3)}
            finally:
                for nm in names:
                    sut.forget(nm)
        if case.get('oracle') == 'lengthen':
            mod, err = sut.compile_grammar(peg.render(g))
            if mod is None:
                return {'bucket': 'compile', 'got': list(err)}
            t = case['text']
            it = peg.Interp(g, t)
            try:
                r0 = it.run_rule(case['entry'])
            except (peg.StepLimit, peg.RefError, RecursionError):
                return None
            if r0 is None or sees_line_ends(g):
                return None
            base = diff.run_confirmed(mod, case['entry'], t)
            for run in it.skip_runs[:3]:
                t2, grow = lengthen(t, run)
                got = diff.run_confirmed(mod, case['entry'], t2)
                if base[0] in ('OK', 'PARTIAL') and not (got[0] in ('OK', 'PARTIAL') and got[1] == base[1]):
                    return {'bucket': 'lengthen-run-changes-value', 'before': list(base), 'after': list(got),
                            'grammar': peg.render(g), 'input': repr(t), 'lengthened': repr(t2)}
            return None
        return diff.replay_case(case)

    def shrink(self, case, still_fails, deadline):
        def ok(c):
            g = peg.g_from_dict(c['g'])
            return c['entry'] in g.ruledict() and g.start_name() and diff.wellformed(g) and still_fails(c)
        return shrink.shrink_case(case, ok, deadline)

    def describe(self, case):
        g = peg.g_from_dict(case['g'])
        return {'grammar': peg.render(g), 'entry': case['entry'], 'input': repr(case.get('text')),
                'oracle': case.get('oracle', 'reference')}

    def selftest(self):
        from selftest import test_peg
        test_peg.run()


if __name__ == '__main__':
    sys.exit(runner.main(C04()))
