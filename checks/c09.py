"""C09 - reported error locations point at a real, consistent input location.
Oracle: validity predicate (independent recomputation of line/column, caret and excerpt
checks).  DESIGN.md 4/C09."""
import re
import sys
import random

from vlib import runner, peg, gens, sut, diff
from vlib.runner import Check, Result, h64

SWEEP_GRAMMARS = {
    'seq': 'start = [/[a\\n]*/, "!"]',            # ParseError where the marker is
    'partial': 'start = /[a\\n]*/',                # PartialParseError where the marker is
    'choice': 'start = (/[a\\n]*/ >> "!") | (/[a\\n]*/ >> "?" >> "?")',
}


def check_error(text, pos, kind, exc):
    """kind: 'FAIL' (ParseError) or 'PARTIAL'.  Returns None or (bucket, detail)."""
    p = exc.position if kind == 'FAIL' else exc.last_position
    index, line, column = p.index, p.line, p.column
    msg = str(exc)
    if not isinstance(index, int) or not (pos <= index <= len(text)):
        return ('index-out-of-range', 'index=%r pos=%r len=%r' % (index, pos, len(text)))
    if kind == 'PARTIAL' and index >= len(text):
        return ('partial-at-end', '')
    if isinstance(text, bytes):
        if index < len(text):
            if line != 1 or column != index + 1:
                return ('bytes-line-column', 'line=%r column=%r index=%r' % (line, column, index))
            body = msg.split(':\n', 1)[1] if ':\n' in msg else ''
            first = body.split('\n')[0]
            if '^' in first and first.strip() == '^':
                return ('bytes-caret', '')
        else:
            if kind == 'FAIL' and (line is not None or column is not None):
                return ('eof-line-column-not-none', '')
        return None
    at_end = index == len(text)
    if kind == 'FAIL':
        if at_end != (line is None and column is None):
            return ('none-iff-end-of-input', 'index=%r len=%r line=%r column=%r' % (index, len(text), line, column))
        if at_end:
            if not msg.startswith('Unexpected end of input.'):
                return ('eof-message', msg[:60])
            return None
    if text[index] == '\n':
        return None            # the statement excepts offsets holding a line break
    want_line = 1 + text.count('\n', 0, index)
    ls = text.rfind('\n', 0, index) + 1
    want_col = index - ls + 1
    if line != want_line or column != want_col:
        return ('line-column', 'index=%d got (%r,%r) want (%r,%r)' % (index, line, column, want_line, want_col))
    le = text.find('\n', index)
    le = len(text) if le < 0 else le
    # message
    m = re.match(r'(?:Error on|Incomplete parse\. Unexpected input on) line (\d+), column (\d+):\n', msg)
    if not m:
        return ('message-header', msg[:80])
    if int(m.group(1)) != line or int(m.group(2)) != column:
        return ('message-numbers', msg[:80])
    rest = msg[m.end():]
    lines = rest.split('\n')
    if len(lines) < 2:
        return ('excerpt-block', rest[:80])
    ex, caret = lines[0], lines[1]
    if not re.fullmatch(r' *\^', caret):
        return ('caret-line', repr(caret[:80]))
    if kind == 'PARTIAL' and len(lines) != 2:
        return ('excerpt-spills-over-line-break', repr(rest[:200]))
    if kind == 'FAIL' and (len(lines) < 3 or lines[2] != '' and not lines[2].startswith('Failed to parse')):
        # ParseError: title ends with "\n" after the caret line, then the details follow
        if not lines[2].startswith('Failed to parse'):
            return ('excerpt-spills-over-line-break', repr(rest[:200]))
    k = len(caret) - 1
    if k >= len(ex) or ex[k] != text[index]:
        return ('caret-not-under-error-character', 'caret col %d over %r, text[index]=%r' % (
            k, ex[k:k + 1], text[index]))
    core = ex
    if core.startswith('... '):
        core = core[4:]
    if core.endswith(' ...'):
        core = core[:-4]
    the_line = text[ls:le]
    if core not in the_line and ex not in the_line:
        return ('excerpt-not-from-error-line', repr(ex[:100]))
    return None


def run_one(mod, text, pos=0):
    """Returns (kind, exc) for error outcomes, else (None, None); HANG/EXC pass through."""
    try:
        with sut.timeout(5.0):
            try:
                mod.parse(text, pos) if pos else mod.parse(text)
                return None, None
            except mod.PartialParseError as e:
                return 'PARTIAL', e
            except mod.ParseError as e:
                return 'FAIL', e
    except sut.Hang:
        return 'HANG', None
    except Exception as e:
        return 'EXC', e


_mods = {}


def sweep_module(name):
    if name not in _mods:
        _mods[name], err = sut.compile_grammar(SWEEP_GRAMMARS[name])
        assert _mods[name] is not None, err
    return _mods[name]


def sweep_text(prefix, length, col, following):
    line = 'a' * (col - 1) + 'Z' + 'a' * (length - col)
    pre = {0: '', 1: 'aaa\n', 2: '\n', 3: 'aa\n\naaaa\n'}[prefix]
    post = {0: '', 1: '\naaaa', 2: '\n'}[following]
    return pre + line + post, len(pre) + col - 1


def fresh_copy(t):
    """An equal text in a NEW object (nobody else holds it)."""
    return ''.join(list(t)) if isinstance(t, str) else bytes(bytearray(t))


def reuse_pair(mod, a, b):
    """Parse a fresh copy of `a`, let it go, then parse a fresh copy of `b` (same length, other line
    structure) that happens to live where the first text lived: an error location describes the text of
    THIS call.  Returns (kind, exc, text b) of the second call, or None if no copy landed at that address."""
    ta = fresh_copy(a)
    where = id(ta)
    run_one(mod, ta)
    del ta
    keep = []
    for _ in range(64):
        tb = fresh_copy(b)
        if id(tb) == where:
            kind, exc = run_one(mod, tb)
            return kind, exc, tb
        keep.append(tb)
    return None


def reuse_texts(length, k):
    """Two texts of one length whose line breaks sit at different offsets in front of the foreign character."""
    body = length - 1
    i, j = (k * 7) % max(1, body - 2), (k * 13 + 5) % max(1, body - 2)
    if i == j:
        j = (j + 1) % max(1, body - 2)
    mk = lambda n: ('a' * n + '\n' + 'a' * (body - n - 2) + 'Z' + 'a')[:length]
    return mk(i), mk(j)


class C09(Check):
    id = 'C09'
    technique = 'PBT: exhaustive line-length x error-column sweep + hypothesis multi-line texts through generated grammars; validity predicate on index/line/column/caret/excerpt'
    rule = ('cases = (grammar, text, pos); (i) exhaustive sweep: line length 1..260 x every error column x 4 kinds of '
            'preceding text x 3 kinds of following text through 3 fixed grammars (ParseError via sequence, via choice '
            'farthest-failure, PartialParseError); (i-b) the same three grammars on pairs of texts of one length with different line structure, the second parsed in a fresh object at the address the first (dropped) one had; (ii) hypothesis: generated core grammars with an ignore pattern for '
            'blanks/newlines and bytes-mode grammars, multi-line texts with lines of 0..400 characters containing one '
            'foreign character, pos >= 0. Every raised error is checked: index in [pos, len] and not beyond the foreign '
            'character, line/column recomputed independently, None/None iff ParseError at end of input, numbers in the '
            'message, two-line excerpt block, caret under text[index], excerpt taken from the error line. Non-trivial iff '
            'the error line has >= 96 characters (abbreviated excerpt) or the error is not on line 1; distinct by (grammar, text, pos).')
    assumptions = ['line breaks are "\\n" only (as the statement and the code count them)',
                   'grammars in part (ii) have no Backtrack (lookbehind aside)']
    budget_quick = 150
    budget_thorough = 1500

    def tasks(self, tier, seed):
        tasks = []
        maxlen = 260
        lens = list(range(1, maxlen + 1))
        for g in SWEEP_GRAMMARS:
            for i in range(0, len(lens), 12):
                tasks.append(('sweep', g, lens[i:i + 12], tier))
        n = 16 if tier == 'quick' else 64
        for s in range(n):
            tasks.append(('hyp', seed * 1000003 + s, 150 if tier == 'quick' else 1000))
        for g in SWEEP_GRAMMARS:
            tasks.append(('reuse', g, 200 if tier == 'quick' else 2000))
        random.Random(seed).shuffle(tasks)
        return tasks

    exhaustive = False   # the sweep part is exhaustive, the hypothesis part is sampled

    def run_task(self, task):
        res = Result()
        if task[0] == 'sweep':
            _, gname, lens, tier = task
            mod = sweep_module(gname)
            prefixes = (0, 1, 2, 3) if tier == 'thorough' else (0, 1, 2)
            for length in lens:
                for col in range(1, length + 1):
                    for prefix in prefixes:
                        for following in (0, 1, 2):
                            text, idx = sweep_text(prefix, length, col, following)
                            kind, exc = run_one(mod, text)
                            res.evals += 1
                            bad = None
                            if kind not in ('FAIL', 'PARTIAL'):
                                bad = ('no-error', str(kind))
                            else:
                                p = exc.position if kind == 'FAIL' else exc.last_position
                                if p.index != idx:
                                    bad = ('sweep-index', 'got %r want %r' % (p.index, idx))
                                else:
                                    bad = check_error(text, 0, kind, exc)
                            if length >= 96 or prefix:
                                res.nontrivial.add(h64(gname, prefix, length, col, following))
                            if bad:
                                res.mismatch({'sweep': gname, 'prefix': prefix, 'length': length, 'col': col,
                                              'following': following})
            res.sample({'sweep_grammar': SWEEP_GRAMMARS[gname], 'lengths': [lens[0], lens[-1]]})
            return res
        if task[0] == 'reuse':
            _, gname, n = task
            mod = sweep_module(gname)
            for k in range(n):
                a, b = reuse_texts(12 + k % 90, k)
                r = reuse_pair(mod, a, b)
                if r is None:
                    res.hist['reuse_no_address_match'] += 1
                    continue
                kind, exc, tb = r
                res.evals += 1
                res.hist['reuse_same_address'] += 1
                res.nontrivial.add(h64('reuse', gname, a, b))
                bad = ('no-error', str(kind)) if kind not in ('FAIL', 'PARTIAL') else check_error(tb, 0, kind, exc)
                if bad:
                    res.mismatch({'reuse': gname, 'a': a, 'b': b})
            return res
        self.run_hyp(res, task)
        return res

    def run_hyp(self, res, task):
        from hypothesis import given, settings, seed, HealthCheck, Phase, strategies as st
        _, s, n = task
        words = st.sampled_from(['a', 'b', 'ab', 'ba', 'aa', 'aB', 'A'])
        gap = st.one_of(st.sampled_from([' ', '\n', '  ', ' \n ', '\n\n', '\x0c', ' \r', '\x0b', '\x85 ', '\u2028']),
                        st.integers(90, 400).map(lambda k: ' ' * k))

        @st.composite
        def texts(draw):
            parts = []
            for _ in range(draw(st.integers(0, 12))):
                parts.append(draw(words))
                parts.append(draw(gap))
            t = ''.join(parts)
            if draw(st.integers(0, 5)) > 0:
                i = draw(st.integers(0, len(t)))
                t = t[:i] + 'Z' + t[i:]
            if draw(st.integers(0, 3)) == 0:
                t += draw(st.sampled_from(['é', 'ü\n', '\t']))
            return t

        @seed(s)
        @settings(max_examples=n, database=None, deadline=None, phases=[Phase.generate],
                  suppress_health_check=list(HealthCheck), report_multiple_bugs=False)
        @given(st.integers(0, 4), st.data())
        def prop(which, data):
            mode = 'bytes' if which == 0 else 'text'
            g = data.draw(gens.core_grammar(nrules=5, depth=4, mode=mode))
            if any('backtrack' == x[0] for r in g.rules for e in peg.rule_exprs(r) for x in peg.walk(e)):
                return
            if mode == 'text':
                g = g.copy(ignores=[(None, ('rx', '\\s+'))], ignore_pos=data.draw(st.integers(0, 5)))
            tl = data.draw(st.lists(texts(), min_size=12, max_size=12))
            if mode == 'bytes':
                tl = [t.encode('utf-8') for t in tl]
            positions = [data.draw(st.integers(0, max(0, len(t)))) for t in tl]
            if runner.over_budget(res):
                return
            desc = peg.render(g)
            mod, err = sut.compile_grammar(desc)
            if mod is None:
                res.mismatch({'g': peg.g_to_dict(g), 'text': '', 'pos': 0, 'why': 'compile'})
                return
            for t, p2 in zip(tl, positions):
                for pos in (0, p2):
                    kind, exc = run_one(mod, t, pos)
                    res.evals += 1
                    res.hist['out_%s' % kind] += 1
                    bad = None
                    if kind in ('HANG', 'EXC'):
                        # not this property's subject (C08) unless it is the error path that crashed
                        res.hist['skipped_' + kind] += 1
                        continue
                    if kind is None:
                        continue
                    bad = check_error(t, pos, kind, exc)
                    p = exc.position if kind == 'FAIL' else exc.last_position
                    if bad is None:
                        z = t.find('Z' if mode == 'text' else b'Z', pos)
                        if z >= 0 and p.index > z:
                            bad = ('index-beyond-foreign-character', 'index=%d z=%d' % (p.index, z))
                    if mode == 'text' and p.index < len(t):
                        ls = t.rfind('\n', 0, p.index) + 1
                        le = t.find('\n', p.index)
                        le = len(t) if le < 0 else le
                        if le - ls >= 96 or ls > 0:
                            res.nontrivial.add(h64(desc, t, pos))
                            res.hist['nontrivial'] += 1
                            if len(res.samples) < 1:
                                res.sample({'grammar': desc[:300], 'text': t[:120], 'pos': pos, 'kind': kind,
                                            'position': list(p)})
                    if bad:
                        res.mismatch({'g': peg.g_to_dict(g), 'text': t, 'pos': pos})
        try:
            prop()
        except runner.StopTask:
            pass

    def replay(self, case):
        if 'reuse' in case:
            mod = sweep_module(case['reuse'])
            for _ in range(20):
                r = reuse_pair(mod, case['a'], case['b'])
                if r is None:
                    continue
                kind, exc, tb = r
                bad = ('no-error', str(kind)) if kind not in ('FAIL', 'PARTIAL') else check_error(tb, 0, kind, exc)
                if bad:
                    return {'bucket': 'after-another-text-at-the-same-address:' + bad[0], 'detail': bad[1], 'message': str(exc)[:300],
                            'first_text': case['a'], 'second_text': case['b']}
            return None
        if 'sweep' in case:
            mod = sweep_module(case['sweep'])
            text, idx = sweep_text(case['prefix'], case['length'], case['col'], case['following'])
            kind, exc = run_one(mod, text)
            if kind not in ('FAIL', 'PARTIAL'):
                return {'bucket': 'no-error', 'kind': str(kind)}
            p = exc.position if kind == 'FAIL' else exc.last_position
            bad = ('sweep-index', 'got %r want %r' % (p.index, idx)) if p.index != idx else check_error(text, 0, kind, exc)
            if bad is None:
                return None
            return {'bucket': bad[0], 'detail': bad[1], 'message': str(exc)[:400], 'text': text[:300]}
        g = peg.g_from_dict(case['g'])
        desc = peg.render(g)
        mod, err = sut.compile_grammar(desc)
        if mod is None:
            return {'bucket': 'compile', 'got': list(err), 'grammar': desc}
        t, pos = case['text'], case['pos']
        kind, exc = run_one(mod, t, pos)
        if kind not in ('FAIL', 'PARTIAL'):
            return None
        bad = check_error(t, pos, kind, exc)
        p = exc.position if kind == 'FAIL' else exc.last_position
        if bad is None:
            z = t.find('Z' if isinstance(t, str) else b'Z', pos)
            if z >= 0 and p.index > z:
                bad = ('index-beyond-foreign-character', 'index=%d z=%d' % (p.index, z))
        if bad is None:
            return None
        return {'bucket': bad[0], 'detail': bad[1], 'message': str(exc)[:400], 'grammar': desc,
                'text': repr(t[:300]), 'pos': pos}

    def shrink(self, case, still_fails, deadline):
        if 'sweep' in case or 'reuse' in case:
            return case
        from vlib import shrink

        def ok(c):
            if not (0 <= c['pos'] <= len(c['text'])):
                return False
            g = peg.g_from_dict(c['g'])
            return 'start' in g.ruledict() and diff.wellformed(g) and still_fails(c)
        return shrink.shrink_case(case, ok, deadline)

    def describe(self, case):
        if 'reuse' in case:
            return dict(case, grammar=SWEEP_GRAMMARS[case['reuse']])
        if 'sweep' in case:
            return dict(case, grammar=SWEEP_GRAMMARS[case['sweep']])
        return {'grammar': peg.render(peg.g_from_dict(case['g'])), 'text': repr(case['text'][:300]), 'pos': case['pos']}


if __name__ == '__main__':
    sys.exit(runner.main(C09()))
