#!/usr/bin/env python3
"""tools/seeded.py <dir-name> <scratch-worktree> <out-dir> [check ids...]
Confirms a seeded change produced by a sub-agent (tests still pass, demo fails with it and passes
without it), stores it under /verif/seeded/<dir-name>/ and runs the given checks (default: the
property it targets) against the scratch worktree."""
import json, os, shutil, subprocess, sys, time
ROOT = os.path.dirname(os.path.dirname(os.path.abspath(__file__)))

def sh(cmd, **kw):
    return subprocess.run(cmd, shell=True, capture_output=True, text=True, **kw)

def main():
    name, wt, out = sys.argv[1:4]
    meta = json.load(open(os.path.join(out, 'meta.json')))
    prop = meta['property']
    checks = sys.argv[4:] or [prop]
    dest = os.path.join(ROOT, 'seeded', name)
    os.makedirs(dest, exist_ok=True)
    # the patch must be what is in the worktree
    d = sh('cd %s && git diff' % wt).stdout
    open(os.path.join(dest, 'patch.diff'), 'w').write(d)
    shutil.copy(os.path.join(out, 'demo.py'), os.path.join(dest, 'demo.py'))
    applies = sh('git -C /repo apply --check %s' % os.path.join(dest, 'patch.diff')).returncode == 0
    tests = sh('cd %s && timeout 300 /venv/bin/python -m pytest -q -p no:cacheprovider 2>&1 | tail -1' % wt).stdout.strip()
    demo_with = sh('cd %s && PYTHONPATH=%s timeout 120 /venv/bin/python %s/demo.py' % (wt, wt, dest)).returncode
    demo_without = sh('cd /repo && PYTHONPATH=/repo timeout 120 /venv/bin/python %s/demo.py' % dest).returncode
    results = {}
    for c in checks:
        t0 = time.time()
        r = sh('cd %s && VERIF_REPO=%s ./check %s --tier quick' % (ROOT, wt, c), timeout=3000)
        lines = [l for l in r.stdout.split('\n') if l.startswith('mismatch')]
        results[c] = {'exit': r.returncode, 'verdict': {0: 'missed', 1: 'caught', 2: 'harness-error'}.get(r.returncode, '?'),
                      'seconds': round(time.time() - t0), 'first_mismatch': (lines[0][10:700] if lines else r.stderr[-300:])}
    meta.update({'confirmed': {'patch_applies_to_repo_head': applies, 'repo_tests_with_change': tests,
                               'demo_exit_with_change': demo_with, 'demo_exit_without_change': demo_without,
                               'repo_head': sh('git -C /repo rev-parse --short HEAD').stdout.strip()},
                 'what_was_run': 'tools/seeded.py: pytest in the scratch worktree, demo.py in both trees, ./check <id> --tier quick with VERIF_REPO=<scratch worktree>',
                 'checks': results})
    json.dump(meta, open(os.path.join(dest, 'meta.json'), 'w'), indent=1)
    print(name, 'applies', applies, '| tests:', tests, '| demo with/without:', demo_with, demo_without)
    for c, r in results.items():
        print('   ', c, r['verdict'], '%ds' % r['seconds'], r['first_mismatch'][:260])

if __name__ == '__main__':
    main()
