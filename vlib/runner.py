"""Shared driver: tiers, seeds, 16-way sharding, aggregation, bucketing, shrinking,
replay files, known findings, evidence JSON and exit codes (DESIGN.md section 2).

Exit codes: 0 held on everything explored / 1 violation (with a VIOLATION line) /
2 harness error (never reported as a violation)."""
import os
import sys
import ast
import json
import time
import hashlib
import argparse
import traceback
import collections
import multiprocessing
import warnings

try:
    from hypothesis.errors import HypothesisWarning
    warnings.filterwarnings('ignore', category=HypothesisWarning)
except Exception:
    pass

ROOT = os.path.dirname(os.path.dirname(os.path.abspath(__file__)))
EVIDENCE_DIR = os.path.join(ROOT, 'evidence')
if os.path.realpath(os.environ.get('VERIF_REPO', '/repo')) != os.path.realpath('/repo'):
    # sensitivity runs against a scratch tree (mutants, seeded changes) must not overwrite the
    # evidence of /repo itself
    EVIDENCE_DIR = os.path.join(os.environ.get('TMPDIR', '/tmp'), 'verif_scratch_evidence')
REPLAY_OUT = os.path.join(EVIDENCE_DIR, 'replays')
REPLAY_DIR = os.path.join(ROOT, 'replays')
KF_FILE = os.path.join(ROOT, 'known_findings.json')


def seed_env():
    try:
        return int(os.environ.get('VERIF_SEED', '1'))
    except ValueError:
        return 1


def jobs_env():
    try:
        return max(1, int(os.environ.get('VERIF_JOBS', '16')))
    except ValueError:
        return 16


def h64(*parts):
    m = hashlib.blake2b(digest_size=8)
    for p in parts:
        if isinstance(p, bytes):
            m.update(b'y' + p)
        else:
            m.update(repr(p).encode('utf-8', 'backslashreplace'))
        m.update(b'\0')
    return int.from_bytes(m.digest(), 'big')


class Result:
    """What one task reports back to the parent."""

    def __init__(self):
        self.evals = 0
        self.nontrivial = set()       # 64-bit hashes of distinct non-trivial cases
        self.samples = []             # a few cases written out
        self.mismatches = []          # case dicts (see Check.replay)
        self.hist = collections.Counter()
        self.excluded = 0
        self.truncated = False
        self.harness_error = None

    def sample(self, s, limit=3):
        if len(self.samples) < limit:
            self.samples.append(s)

    def mismatch(self, case, limit=40):
        self.hist['mismatch'] += 1
        if len(self.mismatches) < limit:
            self.mismatches.append(case)


class Check:
    id = 'C00'
    rule = ''
    technique = ''
    assumptions = []
    exhaustive = False

    def tasks(self, tier, seed):
        raise NotImplementedError

    def run_task(self, task):
        raise NotImplementedError

    def replay(self, case):
        """Re-run one recorded case.  Return a mismatch description (dict with at least
        'bucket') when it still violates the property, else None."""
        raise NotImplementedError

    def shrink(self, case, still_fails, deadline):
        return case

    def describe(self, case):
        """Human readable rendering of a case for the replay file."""
        return {}

    def selftest(self):
        """Oracle self-test; raise on failure (exit 2)."""

    def extra_coverage(self, tier, seed, results):
        return {}


_CHECK = None
_DEADLINE = None


class StopTask(BaseException):
    """Kept for `except runner.StopTask` clauses; no longer raised (hypothesis treats any
    exception escaping a test body as a failure and replays it, which then looks flaky)."""


def check_budget(res, enough_mismatches=None):
    """Call as the FIRST statement of a hypothesis test body (or of a state machine's
    initialize rule): when the task's budget is used up, or enough mismatches were collected,
    the example is rejected (hypothesis.reject), so the remaining examples cost nothing.
    Only at the start of an example, where the drawn arguments make the choice sequence
    novel: concluding at a point where an earlier example went on drawing is reported by
    hypothesis as inconsistent data generation."""
    import hypothesis
    if time.time() > _DEADLINE:
        res.truncated = True
        hypothesis.reject()
    if enough_mismatches is not None and res.hist['mismatch'] >= enough_mismatches:
        hypothesis.reject()


def time_left():
    return _DEADLINE - time.time()


def over_budget(res):
    """True once the task's wall-clock budget is used up.  Test bodies call this AFTER their
    last data draw and before any work on the system under test: skipping draws would make data
    generation depend on the clock, which hypothesis reports as flaky."""
    if time.time() > _DEADLINE:
        res.truncated = True
        return True
    return False


def _worker(task):
    try:
        r = _CHECK.run_task(task)
    except BaseException:
        r = Result()
        r.harness_error = traceback.format_exc()
    return r


def save_case(path, check, case, mismatch):
    os.makedirs(os.path.dirname(path), exist_ok=True)
    doc = {
        'property': check.id,
        'case': repr(case),
        'mismatch': mismatch,
        'readable': check.describe(case),
    }
    with open(path, 'w') as f:
        json.dump(doc, f, indent=1, default=str)
        f.write('\n')


def load_case(path):
    with open(path) as f:
        doc = json.load(f)
    return ast.literal_eval(doc['case']), doc


def load_known_findings(prop):
    if not os.path.exists(KF_FILE):
        return []
    with open(KF_FILE) as f:
        doc = json.load(f)
    return [e for e in doc.get('findings', []) if e.get('property') == prop]


def _safe_replay(check, case):
    try:
        return check.replay(case)
    except Exception:
        raise


def main(check, argv=None):
    global _CHECK, _DEADLINE
    ap = argparse.ArgumentParser()
    ap.add_argument('--tier', default=os.environ.get('VERIF_TIER', 'quick'),
                    choices=['quick', 'thorough'])
    ap.add_argument('--replay', default=None)
    ap.add_argument('--budget', type=float, default=None, help='wall-clock budget in s')
    args = ap.parse_args(argv)
    seed = seed_env()
    t0 = time.time()
    _CHECK = check
    budget = args.budget or (check.budget_quick if args.tier == 'quick' else check.budget_thorough)
    _DEADLINE = t0 + budget

    try:
        if args.replay:
            case, doc = load_case(args.replay)
            m = check.replay(case)
            if m is None:
                print('replay %s: property holds on this case' % args.replay)
                return 0
            print('replay %s: still violates: %s' % (args.replay, json.dumps(m, default=str)[:2000]))
            print('VIOLATION property=%s replay=%s' % (check.id, args.replay))
            return 1

        check.selftest()

        violations = []       # (replay path, mismatch)
        known_lines = []

        # 1. known findings: witnesses
        kfs = load_known_findings(check.id)
        for e in kfs:
            wpath = os.path.join(ROOT, e['witness']) if e.get('witness') else None
            if not wpath or not os.path.exists(wpath):
                continue
            case, _ = load_case(wpath)
            m = check.replay(case)
            if e.get('status') == 'open':
                if m is not None:
                    known_lines.append('KNOWN-FINDING: property=%s %s' % (check.id, e['what']))
                else:
                    print('note: witness of open finding %s no longer fails' % e.get('id'))
            else:  # fixed: an ordinary regression case
                if m is not None:
                    violations.append((wpath, m))

        # 2. committed regression replays
        nreplayed = 0
        if os.path.isdir(REPLAY_DIR):
            kf_witnesses = {os.path.join(ROOT, e['witness']) for e in kfs if e.get('witness')}
            for fn in sorted(os.listdir(REPLAY_DIR)):
                p = os.path.join(REPLAY_DIR, fn)
                if not fn.startswith(check.id + '-') or not fn.endswith('.json') or p in kf_witnesses:
                    continue
                case, _ = load_case(p)
                nreplayed += 1
                m = check.replay(case)
                if m is not None:
                    violations.append((p, m))

        # 3. generated search
        tasks = check.tasks(args.tier, seed)
        results = []
        njobs = min(jobs_env(), max(1, len(tasks)))
        if njobs == 1:
            for t in tasks:
                results.append(_worker(t))
        else:
            ctx = multiprocessing.get_context('fork')
            with ctx.Pool(njobs, maxtasksperchild=getattr(check, 'maxtasksperchild', 8)) as pool:
                for r in pool.imap_unordered(_worker, tasks, chunksize=1):
                    results.append(r)
                    if r.harness_error:
                        pool.terminate()
                        break

        for r in results:
            if r.harness_error:
                sys.stderr.write('HARNESS ERROR in worker:\n' + r.harness_error + '\n')
                return 2

        evals = sum(r.evals for r in results)
        nontrivial = set()
        for r in results:
            nontrivial |= r.nontrivial
        hist = collections.Counter()
        for r in results:
            hist.update(r.hist)
        samples = []
        for r in results:
            for s in r.samples:
                if len(samples) < 10:
                    samples.append(s)
        excluded = sum(r.excluded for r in results)
        truncated = sum(1 for r in results if r.truncated)

        # 4. bucket, shrink, write replay files
        buckets = collections.OrderedDict()
        unreproduced = 0
        for r in results:
            for case in r.mismatches:
                m = check.replay(case)
                tries = 0
                while m is None and tries < 3:
                    tries += 1
                    m = check.replay(case)
                if m is None:
                    if getattr(check, 'unreproducible_is_violation', False):
                        # isolation/history properties: a mismatch against the model that depends on
                        # object identity, hashing or timing may not show again in a fresh replay; it
                        # was still observed against the explicit oracle in the worker
                        m = {'bucket': 'observed-in-worker-but-not-reproduced-by-replay',
                             'note': 'the recorded case is saved; the violation depended on process state'}
                    else:
                        # Seen once in a worker, not seen again in four fresh replays: on a loaded
                        # machine that is a watchdog firing early (a HANG outcome that is not one).
                        # A time budget hit is inconclusive, never a violation: counted, reported,
                        # and the case is kept for inspection.
                        unreproduced += 1
                        sys.stderr.write('note: a mismatch recorded by a worker did not reproduce in 4 replays (inconclusive): %s\n'
                                         % (repr(case)[:600],))
                        continue
                b = m.get('bucket', 'mismatch')
                buckets.setdefault(b, (case, m))
                if len(buckets) >= 6:
                    break
        shrink_budget = 25.0 if args.tier == 'quick' else 120.0
        for b, (case, m) in buckets.items():
            def still_fails(c, b=b):
                try:
                    mm = check.replay(c)
                except Exception:
                    return False
                return mm is not None and mm.get('bucket', 'mismatch') == b
            try:
                small = check.shrink(case, still_fails, time.time() + shrink_budget / max(1, len(buckets)))
            except Exception:
                sys.stderr.write('note: shrinker failed, keeping the unshrunk case\n' + traceback.format_exc())
                small = case
            m2 = check.replay(small) or m
            name = '%s-%016x.json' % (check.id, h64(repr(small)))
            path = os.path.join(REPLAY_OUT, name)
            save_case(path, check, small, m2)
            violations.append((path, m2))

        # 5. evidence
        wall = time.time() - t0
        cov = {
            'evaluations': int(evals),
            'distinct_nontrivial': int(len(nontrivial)),
            'rule': check.rule,
            'samples': samples,
            'exhaustive': bool(check.exhaustive and not truncated),
            'histogram': dict(sorted(hist.items())),
            'excluded_known': int(excluded),
            'tasks': len(tasks),
            'tasks_truncated_by_budget': int(truncated),
            'regression_replays': nreplayed,
            'known_findings_replayed': len(known_lines),
            'unreproduced_mismatches': int(unreproduced),
        }
        cov.update(check.extra_coverage(args.tier, seed, results) or {})
        ev = {
            'property_id': check.id,
            'tier': args.tier,
            'seed': seed,
            'level': 'exploration',
            'coverage': cov,
            'assumptions': list(check.assumptions),
            'wall_s': round(wall, 2),
            'violations': len(violations),
        }
        os.makedirs(EVIDENCE_DIR, exist_ok=True)
        tmp = os.path.join(EVIDENCE_DIR, check.id + '.json.tmp')
        with open(tmp, 'w') as f:
            json.dump(ev, f, indent=1, default=str)
            f.write('\n')
        os.replace(tmp, os.path.join(EVIDENCE_DIR, check.id + '.json'))

        for line in known_lines:
            print(line)
        print('%s tier=%s seed=%d evaluations=%d distinct_nontrivial=%d excluded_known=%d '
              'truncated_tasks=%d wall=%.1fs' % (check.id, args.tier, seed, evals, len(nontrivial),
                                                excluded, truncated, wall))
        if violations:
            for path, m in violations:
                print('mismatch: %s' % json.dumps(m, default=str)[:1500])
                print('VIOLATION property=%s replay=%s' % (check.id, os.path.relpath(path, ROOT)))
            return 1
        if evals == 0 or len(nontrivial) < 2:
            sys.stderr.write('HARNESS ERROR: vacuous run (evaluations=%d nontrivial=%d)\n'
                             % (evals, len(nontrivial)))
            return 2
        return 0
    except SystemExit:
        raise
    except BaseException:
        sys.stderr.write('HARNESS ERROR:\n' + traceback.format_exc() + '\n')
        return 2
