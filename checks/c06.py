"""C06 - parameterised rules behave like their expansion.
Oracle 1: reference interpreter (call = body evaluated with parameters bound to thunks /
values, no memo).  Oracle 2 (thorough and quick): AST-level expansion of non-recursive
templates compiled by sourcer itself.  DESIGN.md 4/C06."""
import re
import sys

from vlib import runner, peg, gens, gens_rich, sut, shrink, diff, expand
from vlib.runner import Check, Result, h64


def nontrivial(ev):
    return bool(ev.get('nonliteral_argument') or ev.get('multi_instantiation_same_pos'))


def has_call(g, name):
    sub = diff.reachable_subgrammar(g, name)
    return any(x[0] == 'call' for r in sub.rules for e in peg.rule_exprs(r) for x in peg.walk(e))


class C06(Check):
    id = 'C06'
    technique = 'PBT: hypothesis template/call-site generator; reference interpreter with thunks + AST expansion compiled by sourcer; named and unnamed grammars'
    rule = ('cases = (grammar, header, entry, input); grammars from the scope-aware generator with a 12-template library '
            '(value, parser, mixed, recursive, forwarding, class templates) and 0-2 generated templates; call-site '
            'arguments: literals (value and parser), rule names, compound expressions capturing 0-2 call-site names, '
            'inline Python, earlier results of every type incl. lists/dicts, positional and keyword, nested calls; '
            'every grammar compiled with and without a `grammar <name>` header. Oracle 1: reference interpreter; oracle '
            '2: the same grammar with every non-recursive template call expanded on the AST (alpha-renamed body, parser '
            'arguments substituted, value arguments let-bound), compiled by sourcer, must agree. Non-trivial iff the '
            'reference trace contains a call with a non-literal argument, or two different instantiations of one '
            'template at one position; distinct by (rule text, header, input).')
    assumptions = ['none beyond the generators\' domain (F11 and F12 were repaired; their witnesses are replayed as regressions)']
    budget_quick = 170
    budget_thorough = 1500

    def tasks(self, tier, seed):
        n = 16 if tier == 'quick' else 64
        per = 40 if tier == 'quick' else 300
        return [('hyp', seed * 1000003 + s, per) for s in range(n)]

    def run_task(self, task):
        from hypothesis import given, settings, seed, HealthCheck, Phase, strategies as st
        res = Result()
        _, s, n = task

        @seed(s)
        @settings(max_examples=n, database=None, deadline=None, phases=[Phase.generate],
                  suppress_health_check=list(HealthCheck), report_multiple_bugs=False)
        @given(st.integers(0, 4).flatmap(lambda m: gens_rich.rich_grammar(nrules=4, depth=3, mode='bytes' if m == 0 else 'text')),
               st.data())
        def prop(g, data):
            res.hist['mode_' + g.mode] += 1
            entries = [e for e in gens_rich.entry_points(g) if e[0] in 'RKsF' and has_call(g, e)]
            if not entries:
                res.hist['grammar_without_calls'] += 1
                return
            inputs = gens.all_inputs('ab12', 4) + data.draw(
                st.lists(st.text(alphabet='ab12Z', min_size=1, max_size=8), min_size=30, max_size=30))
            if g.mode == 'bytes':
                inputs = [t.encode('latin-1') for t in inputs]
            if runner.over_budget(res):
                return
            res.hist['grammars'] += 1
            named = sut.fresh_name('vfc06_')
            try:
                diff.eval_grammar(res, g, entries, inputs, nontrivial, 'c06-unnamed')
                diff.eval_grammar(res, g.copy(header=named), entries, inputs, nontrivial, 'c06-named')
            finally:
                sut.forget(named)
            # oracle 2: expansion
            self.check_expansion(res, g, entries, inputs)
        try:
            prop()
        except runner.StopTask:
            pass
        return res

    def check_expansion(self, res, g, entries, inputs):
        try:
            gx = expand.expand_grammar(g)
        except expand.CannotExpand as e:
            res.hist['expansion_skipped'] += 1
            return
        m1, e1 = sut.compile_grammar(peg.render(g))
        m2, e2 = sut.compile_grammar(peg.render(gx))
        if m1 is None:
            return            # reported by oracle 1
        if m2 is None:
            res.hist['expansion_compile_problem'] += 1
            res.mismatch({'g': peg.g_to_dict(g), 'entry': entries[0], 'text': inputs[0], 'oracle': 'expansion'})
            return
        for name in entries:
            for t in inputs[::3]:
                a = diff.run_confirmed(m1, name, t)
                b = diff.run_confirmed(m2, name, t)
                res.evals += 1
                res.hist['expansion_compared'] += 1
                if a[0] == 'HANG' and b[0] == 'HANG':
                    res.hist['expansion_both_hang'] += 1
                    return
                if expand.normalise(a) != expand.normalise(b):
                    res.mismatch({'g': peg.g_to_dict(diff.reachable_subgrammar(g, name)), 'entry': name, 'text': t,
                                  'oracle': 'expansion'})
                    if a[0] == 'HANG' or b[0] == 'HANG':
                        return

    def replay(self, case):
        if case.get('oracle') == 'expansion':
            g = peg.g_from_dict(case['g'])
            try:
                gx = expand.expand_grammar(g)
            except expand.CannotExpand:
                return None
            m1, e1 = sut.compile_grammar(peg.render(g))
            m2, e2 = sut.compile_grammar(peg.render(gx))
            if m1 is None:
                return {'bucket': 'compile', 'got': list(e1), 'grammar': peg.render(g)}
            if m2 is None:
                return {'bucket': 'expansion-compile', 'got': list(e2), 'grammar': peg.render(g), 'expanded': peg.render(gx)}
            a = diff.run_confirmed(m1, case['entry'], case['text'])
            b = diff.run_confirmed(m2, case['entry'], case['text'])
            if expand.normalise(a) == expand.normalise(b):
                return None
            tag = lambda o: o[0] if o[0] != 'EXC' else 'EXC:' + o[1]
            return {'bucket': 'expansion:%s->%s' % (tag(b), tag(a)), 'with_templates': list(a), 'expanded': list(b),
                    'grammar': peg.render(g), 'expanded_grammar': peg.render(gx), 'input': repr(case['text'])}
        if case.get('named'):
            g = peg.g_from_dict(case['g'])
            name = sut.fresh_name('vfc06r_')
            c = dict(case)
            c['g'] = peg.g_to_dict(g.copy(header=name))
            try:
                return diff.replay_case(c)
            finally:
                sut.forget(name)
        m = diff.replay_case(case)
        if m is None and not case['g'].get('header'):
            # the same description under a grammar name
            g = peg.g_from_dict(case['g'])
            name = sut.fresh_name('vfc06r_')
            c = dict(case)
            c['g'] = peg.g_to_dict(g.copy(header=name))
            try:
                m = diff.replay_case(c)
                if m:
                    m['bucket'] = 'named:' + m['bucket']
            finally:
                sut.forget(name)
        return m

    def shrink(self, case, still_fails, deadline):
        def ok(c):
            g = peg.g_from_dict(c['g'])
            return c['entry'] in g.ruledict() and diff.wellformed(g) and still_fails(c)
        # drop the header name so that shrinking does not fight module-name reuse
        c0 = dict(case)
        if c0['g'].get('header'):
            g = dict(c0['g'])
            g['header'] = None
            c0['g'] = g
            if not still_fails(c0):
                return case
        return shrink.shrink_case(c0, ok, deadline)

    def describe(self, case):
        g = peg.g_from_dict(case['g'])
        return {'grammar': peg.render(g), 'entry': case['entry'], 'input': repr(case.get('text')),
                'oracle': case.get('oracle', 'reference')}

    def selftest(self):
        from selftest import test_peg, test_expand
        test_peg.run()
        test_expand.run()


if __name__ == '__main__':
    sys.exit(runner.main(C06()))
