"""Result-tree generation for the object-level properties C14, C15, C16.

A *spec* is plain data (replayable, shrinkable):
  ('obj', 'K2', [spec, spec])   ('infix', l, op, r)  ('prefix', op, r)  ('postfix', l, op)
  ('list', [spec..])  ('tuple', [spec..])  ('dict', [(key, spec)..])
  ('leaf', value)     ('share', i)   -> the i-th (mod n) already completed object/container
`build(spec, mod)` instantiates it with the constructors of a compiled grammar module.
`to_text(spec)` prints the parseable subset so that `mod.parse` yields the same tree *with*
position metadata."""
import functools
import itertools
from hypothesis import strategies as st

from . import sut

DESC = r'''
class K0 {
    pass "n"
}
class K1 {
    a: "u" >> V
}
class K2 {
    a: "b" >> V
    b: V
}
class K3 {
    _a: "t" >> V
    b: V
    c_: V
}
class J1 {
    a: "v" >> V
}
class J2 {
    a: "c" >> V
    b: V
}
L = "[" >> V* << "]"
Num = /[0-9]/ |> `int`
Word = /[x-z]+/
Nil = "~" >> `None`
Op = V between {
    postfix: "!"
    prefix: "-"
    left: "+"
}
V = K0 | K1 | K2 | K3 | J1 | J2 | L | Num | Word | Nil | "{" >> Op << "}"
start = V
ignore Space = /[ \n]+/
'''

ARITY = {'K0': 0, 'K1': 1, 'K2': 2, 'K3': 3, 'J1': 1, 'J2': 2}
FIELDS = {'K0': (), 'K1': ('a',), 'K2': ('a', 'b'), 'K3': ('_a', 'b', 'c_'), 'J1': ('a',), 'J2': ('a', 'b'),
          'Infix': ('left', 'operator', 'right'), 'Prefix': ('operator', 'right'),
          'Postfix': ('left', 'operator')}

_counter = itertools.count()
_module = {}


def get_module(named=True):
    """One compiled module per process (named, so that pickling works)."""
    key = named
    if key not in _module:
        name = sut.fresh_name('vfobj')
        desc = ('grammar %s\n' % name if named else '') + DESC
        mod, err = sut.compile_grammar(desc)
        if mod is None:
            raise RuntimeError('cannot compile the object grammar: %r' % (err,))
        _module[key] = mod
    return _module[key]


LEAVES = [None, None, 0, 1, 1, 2, 255, 256, 257, -1, 10 ** 20, True, False, 'ab', 'ab', '', 'x', 'hello world',
          b'ab', b'', 1.5, 0.0, -0.0, 1.0]


@functools.lru_cache(maxsize=None)
def leaf_strategy():
    return st.sampled_from(LEAVES) | st.integers(-3, 300) | st.text(alphabet='abxyz', max_size=3)


@functools.lru_cache(maxsize=None)
def spec_strategy(max_leaves=12, containers=True, parseable=False):
    """Recursive strategy over specs.  parseable=True restricts to what to_text can print."""
    if parseable:
        leaf = st.one_of(st.integers(0, 9), st.sampled_from(['x', 'y', 'zz', 'xyz']), st.none()).map(lambda v: ('leaf', v))
    else:
        leaf = leaf_strategy().map(lambda v: ('leaf', v)) | st.integers(0, 50).map(lambda i: ('share', i))

    def extend(children):
        opts = [
            st.just(('obj', 'K0', [])),
            children.map(lambda a: ('obj', 'K1', [a])),
            children.map(lambda a: ('obj', 'J1', [a])),
            st.tuples(children, children).map(lambda t: ('obj', 'J2', list(t))),
            st.tuples(children, children).map(lambda t: ('obj', 'K2', list(t))),
            st.tuples(children, children, children).map(lambda t: ('obj', 'K3', list(t))),
            st.lists(children, max_size=4).map(lambda xs: ('list', xs)),
            st.tuples(children, children).map(lambda t: ('infix', t[0], '+', t[1])),
            children.map(lambda a: ('prefix', '-', a)),
            children.map(lambda a: ('postfix', a, '!')),
        ]
        # containers inside containers, objects BEHIND plain values: places a traversal that
        # looks only at the first or only at the direct elements of a container never reaches
        plain = ('leaf', 'x') if parseable else ('leaf', 7)
        shapes = [
            lambda a: ('list', [plain, ('list', [a])]),
            lambda a: ('list', [('list', [plain, a]), plain]),
            lambda a: ('list', [('list', [a]), ('list', [plain, a])]),
        ]
        if not parseable and containers:
            shapes += [
                lambda a: ('tuple', [plain, a]),
                lambda a: ('list', [plain, ('tuple', [plain, a])]),
                lambda a: ('dict', [('k', plain), ('j', ('list', [plain, a]))]),
                lambda a: ('tuple', [('dict', [('k', a)])]),
            ]
        opts.append(st.tuples(children, st.integers(0, len(shapes) - 1)).map(lambda t: shapes[t[1]](t[0])))
        if not parseable and containers:
            opts += [
                st.lists(children, max_size=3).map(lambda xs: ('tuple', xs)),
                st.lists(st.tuples(st.sampled_from(['k', 'j', 0, 1, 'ab']), children), max_size=3,
                         unique_by=lambda kv: kv[0]).map(lambda kvs: ('dict', kvs)),
            ]
        return st.one_of(opts)
    return st.recursive(leaf, extend, max_leaves=max_leaves)


def build(spec, mod, built=None, reverse_dicts=False):
    """Instantiate a spec.  `built` collects completed objects/containers (for 'share')."""
    if reverse_dicts:
        return _build_rev(spec, mod, [] if built is None else built)
    if built is None:
        built = []
    k = spec[0]
    if k == 'leaf':
        return spec[1]
    if k == 'share':
        if not built:
            return None
        return built[spec[1] % len(built)]
    if k == 'obj':
        v = getattr(mod, spec[1])(*[build(c, mod, built) for c in spec[2]])
    elif k == 'infix':
        l = build(spec[1], mod, built)
        r = build(spec[3], mod, built)
        v = mod.Infix(l, spec[2], r)
    elif k == 'prefix':
        v = mod.Prefix(spec[1], build(spec[2], mod, built))
    elif k == 'postfix':
        v = mod.Postfix(build(spec[1], mod, built), spec[2])
    elif k == 'list':
        v = [build(c, mod, built) for c in spec[1]]
    elif k == 'tuple':
        v = tuple(build(c, mod, built) for c in spec[1])
    elif k == 'dict':
        v = {key: build(c, mod, built) for key, c in spec[1]}
    else:
        raise ValueError(k)
    built.append(v)
    return v


def _build_rev(spec, mod, built):
    """Like build, but dict entries are inserted in reverse order (equal dicts, different
    insertion order)."""
    k = spec[0]
    if k == 'dict':
        items = [(key, _build_rev(c, mod, built)) for key, c in spec[1]]
        v = dict(reversed(items))
        built.append(v)
        return v
    if k in ('leaf', 'share'):
        return build(spec, mod, built)
    if k == 'obj':
        v = getattr(mod, spec[1])(*[_build_rev(c, mod, built) for c in spec[2]])
    elif k == 'infix':
        v = mod.Infix(_build_rev(spec[1], mod, built), spec[2], _build_rev(spec[3], mod, built))
    elif k == 'prefix':
        v = mod.Prefix(spec[1], _build_rev(spec[2], mod, built))
    elif k == 'postfix':
        v = mod.Postfix(_build_rev(spec[1], mod, built), spec[2])
    elif k == 'list':
        v = [_build_rev(c, mod, built) for c in spec[1]]
    elif k == 'tuple':
        v = tuple(_build_rev(c, mod, built) for c in spec[1])
    built.append(v)
    return v


def to_text(spec):
    k = spec[0]
    if k == 'leaf':
        v = spec[1]
        if v is None:
            return '~'
        return str(v)
    if k == 'obj':
        tag = {'K0': 'n', 'K1': 'u', 'K2': 'b', 'K3': 't', 'J1': 'v', 'J2': 'c'}[spec[1]]
        return ' '.join([tag] + [to_text(c) for c in spec[2]])
    if k == 'list':
        return '[' + ' '.join(to_text(c) for c in spec[1]) + ']'

    def opd(s):
        # operands of the operator table are V's: wrap nested operator expressions
        t = to_text(s)
        return t
    if k == 'infix':
        return '{' + opd(spec[1]) + ' + ' + opd(spec[3]) + '}'
    if k == 'prefix':
        return '{-' + opd(spec[2]) + '}'
    if k == 'postfix':
        return '{' + opd(spec[1]) + '!}'
    raise ValueError(k)


def is_obj(v):
    return hasattr(v, '_metadata') and hasattr(v, '_fields')


def same(a, b):
    """Independent structural equality: same class and pairwise `same` fields; containers
    element-wise; leaves by ==.  Iterative."""
    stack = [(a, b)]
    while stack:
        x, y = stack.pop()
        if x is y:
            continue
        ox, oy = is_obj(x), is_obj(y)
        if ox or oy:
            if not (ox and oy) or type(x) is not type(y):
                return False
            for f in x._fields:
                stack.append((getattr(x, f), getattr(y, f)))
            continue
        if isinstance(x, (list, tuple)) and isinstance(y, (list, tuple)):
            if isinstance(x, list) != isinstance(y, list) or len(x) != len(y):
                return False
            stack.extend(zip(x, y))
            continue
        if isinstance(x, dict) and isinstance(y, dict):
            if len(x) != len(y):
                return False
            for kx, vx in x.items():
                if kx not in y:
                    return False
                stack.append((vx, y[kx]))
            continue
        if isinstance(x, (list, tuple, dict)) or isinstance(y, (list, tuple, dict)):
            return False
        try:
            if not (x == y):
                return False
        except Exception:
            return False
    return True


def snapshot(v):
    """Deep structural snapshot including identities and metadata, to detect mutation."""
    out = []
    seen = {}
    stack = [v]
    while stack:
        x = stack.pop()
        if is_obj(x):
            if id(x) in seen:
                out.append(('ref', seen[id(x)]))
                continue
            seen[id(x)] = len(seen)
            out.append(('obj', type(x).__name__, id(x), repr(x._metadata.position_info),
                        tuple(id(getattr(x, f)) for f in x._fields)))
            stack.extend(getattr(x, f) for f in reversed(x._fields))
        elif isinstance(x, (list, tuple)):
            if id(x) in seen:
                out.append(('ref', seen[id(x)]))
                continue
            seen[id(x)] = len(seen)
            out.append((type(x).__name__, id(x), tuple(id(c) for c in x)))
            stack.extend(reversed(x))
        elif isinstance(x, dict):
            if id(x) in seen:
                out.append(('ref', seen[id(x)]))
                continue
            seen[id(x)] = len(seen)
            out.append(('dict', id(x), tuple((k, id(c)) for k, c in x.items())))
            stack.extend(reversed(list(x.values())))
        else:
            out.append(('leaf', type(x).__name__, repr(x)))
    return out


def count_objects(v):
    n = 0
    stack = [v]
    seen = set()
    while stack:
        x = stack.pop()
        if is_obj(x):
            if id(x) in seen:
                continue
            seen.add(id(x))
            n += 1
            stack.extend(getattr(x, f) for f in x._fields)
        elif isinstance(x, (list, tuple)):
            stack.extend(x)
        elif isinstance(x, dict):
            stack.extend(x.values())
    return n


def has_kind(spec, kinds):
    stack = [spec]
    while stack:
        s = stack.pop()
        if s[0] in kinds:
            return True
        if s[0] == 'obj':
            stack.extend(s[2])
        elif s[0] in ('list', 'tuple'):
            stack.extend(s[1])
        elif s[0] == 'dict':
            stack.extend(c for _, c in s[1])
        elif s[0] == 'infix':
            stack.extend([s[1], s[3]])
        elif s[0] == 'prefix':
            stack.append(s[2])
        elif s[0] == 'postfix':
            stack.append(s[1])
    return False


def perturb(spec, path_choice, new_leaf):
    """Copy of spec with one leaf replaced (the path_choice-th leaf, modulo count)."""
    leaves = []

    def collect(s, path):
        k = s[0]
        if k in ('leaf', 'share'):
            leaves.append(path)
        elif k == 'obj':
            for i, c in enumerate(s[2]):
                collect(c, path + ((2, i),))
        elif k in ('list', 'tuple'):
            for i, c in enumerate(s[1]):
                collect(c, path + ((1, i),))
        elif k == 'dict':
            for i, (_, c) in enumerate(s[1]):
                collect(c, path + ((1, i, 1),))
        elif k == 'infix':
            collect(s[1], path + ((1,),))
            collect(s[3], path + ((3,),))
        elif k == 'prefix':
            collect(s[2], path + ((2,),))
        elif k == 'postfix':
            collect(s[1], path + ((1,),))
    collect(spec, ())
    if not leaves:
        return spec, False
    target = leaves[path_choice % len(leaves)]

    def rebuild(s, path):
        if not path:
            return ('leaf', new_leaf)
        step = path[0]
        s = list(s)
        if len(step) == 1:
            s[step[0]] = rebuild(s[step[0]], path[1:])
        elif len(step) == 2:
            inner = list(s[step[0]])
            inner[step[1]] = rebuild(inner[step[1]], path[1:])
            s[step[0]] = inner
        else:
            inner = list(s[step[0]])
            kv = list(inner[step[1]])
            kv[1] = rebuild(kv[1], path[1:])
            inner[step[1]] = tuple(kv)
            s[step[0]] = inner
        return tuple(s)
    return rebuild(spec, target), True


SWAP = {'K1': 'J1', 'J1': 'K1', 'K2': 'J2', 'J2': 'K2'}


def swap_class(spec, choice):
    """Copy of spec in which one K1/K2/J1/J2 node has its class replaced by the class with
    the same field names (equal fields, different class => must compare unequal)."""
    nodes = []

    def collect(s, path):
        if s[0] == 'obj' and s[1] in SWAP:
            nodes.append(path)
        k = s[0]
        if k == 'obj':
            for i, c in enumerate(s[2]):
                collect(c, path + (i,))
        elif k in ('list', 'tuple'):
            for i, c in enumerate(s[1]):
                collect(c, path + (i,))
        elif k == 'dict':
            for i, (_, c) in enumerate(s[1]):
                collect(c, path + (i,))
        elif k == 'infix':
            collect(s[1], path + (0,)); collect(s[3], path + (1,))
        elif k == 'prefix':
            collect(s[2], path + (0,))
        elif k == 'postfix':
            collect(s[1], path + (0,))
    collect(spec, ())
    if not nodes:
        return spec, False
    target = nodes[choice % len(nodes)]

    def rebuild(s, path):
        k = s[0]
        if not path:
            return ('obj', SWAP[s[1]], s[2])
        i = path[0]
        if k == 'obj':
            cs = list(s[2]); cs[i] = rebuild(cs[i], path[1:]); return ('obj', s[1], cs)
        if k in ('list', 'tuple'):
            cs = list(s[1]); cs[i] = rebuild(cs[i], path[1:]); return (k, cs)
        if k == 'dict':
            cs = list(s[1]); cs[i] = (cs[i][0], rebuild(cs[i][1], path[1:])); return (k, cs)
        if k == 'infix':
            return ('infix', rebuild(s[1], path[1:]), s[2], s[3]) if i == 0 else ('infix', s[1], s[2], rebuild(s[3], path[1:]))
        if k == 'prefix':
            return ('prefix', s[1], rebuild(s[2], path[1:]))
        if k == 'postfix':
            return ('postfix', rebuild(s[1], path[1:]), s[2])
    return rebuild(spec, target), True


def anagram(spec, choice, mode=0):
    """Copy of spec in which the children of one node are rearranged (two field values
    exchanged, a list rotated, the operands of an infix node exchanged) or - mode 1 - a pair
    of equal siblings is replaced by another pair of equal siblings: the parts (or their
    multiplicities) stay what they were, so order-insensitive ways of combining the parts'
    hashes collide, and yet the objects are different values."""
    nodes = []

    def kids(s):
        k = s[0]
        if k == 'obj':
            return list(s[2])
        if k in ('list', 'tuple'):
            return list(s[1])
        if k == 'dict':
            return [c for _, c in s[1]]
        if k == 'infix':
            return [s[1], s[3]]
        if k == 'prefix':
            return [s[2]]
        if k == 'postfix':
            return [s[1]]
        return []

    def collect(s, path):
        ks = kids(s)
        if len(ks) >= 2 and s[0] != 'dict' and any(repr(a) != repr(b) for a in ks for b in ks):
            nodes.append(path)
        for i, c in enumerate(ks):
            collect(c, path + (i,))
    collect(spec, ())
    if not nodes:
        return spec, False
    target = nodes[choice % len(nodes)]

    def with_kids(s, ks):
        k = s[0]
        if k == 'obj':
            return ('obj', s[1], list(ks))
        if k in ('list', 'tuple'):
            return (k, list(ks))
        if k == 'dict':
            return ('dict', [(kv[0], c) for kv, c in zip(s[1], ks)])
        if k == 'infix':
            return ('infix', ks[0], s[2], ks[1])
        if k == 'prefix':
            return ('prefix', s[1], ks[0])
        return ('postfix', ks[0], s[2])

    def rebuild(s, path):
        ks = kids(s)
        if not path:
            if mode == 1:
                return with_kids(s, [ks[-1]] * len(ks))
            return with_kids(s, ks[1:] + ks[:1])
        ks[path[0]] = rebuild(ks[path[0]], path[1:])
        return with_kids(s, ks)
    return rebuild(spec, target), True


def safe_repr(v):
    """For reports only: the object's own repr may be what is broken."""
    try:
        return repr(v)
    except Exception as e:
        from . import peg
        try:
            return '%s (repr raises %s)' % (peg.canon(v), type(e).__name__)
        except Exception:
            return '<unprintable: repr raises %s>' % type(e).__name__
