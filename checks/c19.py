"""C19 - alternative spellings of the grammar language are interchangeable.
Oracle (metamorphic): one AST, two renderings (canonical fully parenthesised vs. random
spellings, layouts and minimal parentheses) must behave identically; the reference
interpreter on the AST is a third voice that pins the intended grouping.  DESIGN.md 4/C19."""
import sys

from vlib import runner, peg, gens, gens_rich, sut, shrink, diff
from vlib.runner import Check, Result, h64

NBITS = 600


def group_expr_strategy():
    from hypothesis import strategies as st
    leaf = st.sampled_from([('lit', 'a'), ('lit', 'b'), ('rx', '[ab]'), ('ref', 'A'), ('ref', 'W'), ('lit', ',')])

    def ext(ch):
        f = st.sampled_from([('py', 'lambda v: [v]'), ('py', 'lambda v: (v, 1)')])
        p = st.sampled_from([('py', 'lambda v: v != "b"'), ('py', 'lambda v: True'), ('py', 'lambda v: v != ["a"]')])
        nn = lambda e: e if not peg.nullable(e, gens_rich.BASE_NULL) else ('right', ('lit', 'a'), e)
        return st.one_of(
            st.tuples(ch, ch).map(lambda t: ('right', t[0], t[1])),
            st.tuples(ch, ch).map(lambda t: ('left', t[0], t[1])),
            st.tuples(ch, ch).map(lambda t: ('choice', [t[0], t[1]])),
            st.tuples(ch, ch, ch).map(lambda t: ('choice', [t[0], t[1], t[2]])),
            st.tuples(ch, ch, st.booleans()).map(lambda t: ('sep', nn(t[0]), nn(t[1]), False, t[2], True, False)),
            st.tuples(ch, f).map(lambda t: ('apply', t[0], t[1])),
            st.tuples(f, ch).map(lambda t: ('applyl', t[0], t[1])),
            st.tuples(ch, p).map(lambda t: ('where', t[0], t[1])),
            ch.map(lambda e: ('opt', e)),
            ch.map(lambda e: ('rep', nn(e), 0, None)),
            ch.map(lambda e: ('rep', nn(e), 1, None)),
            # (bounds with different numbers of digits too: 2 < 10 numerically, "2" > "10" as text)
            st.tuples(ch, st.sampled_from([(2, 2), (1, 2), (None, 2), (2, None), (2, 10), (9, 12), (None, 10), (10, None),
                                           (3, 11)])).map(lambda t: ('rep', nn(t[0]), t[1][0], t[1][1])),
            st.tuples(ch, ch).map(lambda t: ('seq', [t[0], t[1]])),
        )
    return st.recursive(leaf, ext, max_leaves=7)


_CHAIN_LEAVES = [('lit', 'a'), ('lit', 'b'), ('lit', ','), ('rx', '[ab]')]
_CHAIN_OPS = ('right', 'left', 'choice', 'sep', 'sept', 'apply', 'applyl', 'where', 'opt', 'star')


def chain_trees(n, counter):
    """Every expression with exactly n operators from the binary rows of the precedence table
    (>> << | // /? |> <| where) and the postfix ? and *, in every grouping; operands are typed
    (the right operand of |> and the left operand of <| are functions, that of `where` a predicate)."""
    if n == 0:
        i = counter[0]
        counter[0] += 1
        yield _CHAIN_LEAVES[i % len(_CHAIN_LEAVES)]
        return
    for op in _CHAIN_OPS:
        if op in ('opt', 'star'):
            c0 = counter[0]
            for e in chain_trees(n - 1, counter):
                if op == 'star' and peg.nullable(e, {}):
                    continue
                yield ('opt', e) if op == 'opt' else ('rep', e, 0, None)
                counter[0] = c0
            counter[0] = c0
            continue
        for k in range(n):
            ln, rn = k, n - 1 - k
            if op in ('apply', 'where') and rn:
                continue
            if op == 'applyl' and ln:
                continue
            c0 = counter[0]
            if op == 'applyl':
                for r in chain_trees(rn, counter):
                    yield ('applyl', ('py', 'lambda v: (v, 1)'), r)
                    counter[0] = c0
                continue
            for l in chain_trees(ln, counter):
                c1 = counter[0]
                if op == 'apply':
                    yield ('apply', l, ('py', 'lambda v: [v]'))
                elif op == 'where':
                    yield ('where', l, ('py', 'lambda v: v != "b" and v != ["b"]'))
                else:
                    for r in chain_trees(rn, counter):
                        if op in ('sep', 'sept'):
                            if not (peg.nullable(l, {}) or peg.nullable(r, {})):
                                yield ('sep', l, r, False, op == 'sept', True, False)
                        elif op == 'choice':
                            yield ('choice', [l, r])
                        else:
                            yield (op, l, r)
                        counter[0] = c1
                counter[0] = c0
            counter[0] = c0


def nested_choices():
    """Choices nested in choices, every bracketing of 3 alternatives (and one of 4) that can fail after
    consuming: `(p | q) | r`, `Choice(Choice(p, q), r)`, `Choice(p, q | r)`, ... are all the flat choice."""
    a, b, c, x = ('lit', 'a'), ('lit', 'b'), ('lit', ','), ('lit', 'x')
    pool = [x, ('seq', [a, b]), ('seq', [a, c]), ('seq', [a, b, c]), a, ('right', a, b), ('left', ('seq', [a, a]), b)]
    out = []
    for i, p in enumerate(pool):
        for j, q in enumerate(pool):
            for k, r in enumerate(pool):
                if len({i, j, k}) < 3:
                    continue
                out.append(('choice', [('choice', [p, q]), r]))
                out.append(('choice', [p, ('choice', [q, r])]))
                if (i + j + k) % 4 == 0:
                    s = pool[(i + j + k + 1) % len(pool)]
                    out.append(('choice', [('choice', [p, q]), ('choice', [r, s])]))
                    out.append(('choice', [('choice', [('choice', [p, q]), r]), s]))
    return out


def all_chains(maxn):
    out = []
    for n in range(2, maxn + 1):
        out.extend(chain_trees(n, [0]))
    return out + nested_choices()


def dimensions(a, b):
    """Rough count of spelling dimensions in which two renderings differ."""
    dims = 0
    for tok in ('Seq(', 'Choice(', 'Right(', 'Left(', 'Opt(', 'List(', 'Some(', 'Sep(', ';', '#', ' => ', ' : ', 'ignored',
                '"""', "'''", '\n\n'):
        if (tok in a) != (tok in b):
            dims += 1
    if a.count('(') != b.count('('):
        dims += 1
    return dims


class C19(Check):
    id = 'C19'
    technique = 'PBT: one AST rendered twice (canonical vs. random constructor/operator spellings, definition signs, separators, comments, line breaks, quotes, minimal parentheses, bare start expression); differential between renderings + reference interpreter'
    rule = ('cases = (AST, rendering bits, entry, input); ASTs: rich grammars (let, where, |>, <|, classes, templates), core '
            'grammars and grouping-focused expressions mixing //, /?, <<, >>, <|, |>, where, | and the postfix forms; '
            'rendering B draws independently: ?/Opt, */List, +/Some/List(min_len=1), >>/Right, <</Left, |/Choice, [..]/Seq, '
            '// and /? / Sep(...), {m,n}/List(min_len,max_len), = : =>, newline / ; / comment separators, blank lines, line '
            'breaks and comments around binary operators and inside brackets, redundant parentheses, quote styles, '
            'ignore/ignored, bare expression vs start = ..., and MINIMAL parentheses computed from the precedence table of '
            'the statement; rendering A is canonical and fully parenthesised. Both must compile and agree on every entry and '
            'all inputs of length <= 4 (+ random longer ones); the reference on the AST must agree with both. Non-trivial iff '
            'the two texts differ in >= 2 spelling dimensions and in their parenthesisation; distinct by (text B, entry, input). '
            'Plus an exhaustive matrix: every expression with 2 (thorough: 3) operators out of >> << | // /? |> <| where ? * in '
            'every grouping, written with minimal parentheses / mixed constructor forms, on all inputs of length <= 4 over "ab,".')
    assumptions = ['constructor forms are never used for operands that are bare inline Python (the documented exception)',
                   'let expressions are always parenthesised (their body extends as far as possible)']
    budget_quick = 170
    budget_thorough = 1500

    def tasks(self, tier, seed):
        n = 16 if tier == 'quick' else 64
        per = 50 if tier == 'quick' else 350
        chains = [('chains', i, 16, 2 if tier == 'quick' else 3) for i in range(16)]
        return [('hyp', seed * 1000003 + s, per) for s in range(n)] + chains

    def run_chains(self, task):
        """Exhaustive: every grouping of 2 (thorough: 3) operators of the precedence table, written with
        the fewest parentheses the table allows, against the fully parenthesised text and the reference."""
        res = Result()
        _, shard, nshards, maxn = task
        trees = all_chains(maxn)
        groups = [trees[i:i + 10] for i in range(0, len(trees), 10)]
        alpha = 'ab,'
        inputs = gens.all_inputs(alpha, 4) + ['a,b,a,b', 'ab,ab,', 'a,a,a,', 'bbbbb', 'b,a,b,a,b', 'x', 'xa', 'aab', 'aab,', 'aax']
        for gi, grp in enumerate(groups):
            if gi % nshards != shard:
                continue
            if runner.time_left() < 0:
                res.truncated = True
                break
            rules = [('rule', 'X%d' % i, None, e) for i, e in enumerate(grp)]
            rules.append(('rule', 'start', None, ('ref', 'X0')))
            g = peg.G(rules)
            a = peg.render(g)
            ma, ea = sut.compile_grammar(a)
            # operator spellings with minimal parentheses / constructor forms throughout / two mixtures
            variants = [[2] * 6000, [1] * 6000, [2, 1, 2, 2, 3] * 1200, [(gi * 7 + j * j * 3 + j) % 61 + 1 for j in range(600)]]
            for bits in variants:
                b = peg.render2(g, bits)
                mb, eb = sut.compile_grammar(b)
                if ma is None or mb is None:
                    res.evals += 1
                    res.mismatch({'g': peg.g_to_dict(g), 'bits': bits, 'entry': 'start', 'text': ''})
                    continue
                res.hist['chain_renderings'] += 1
                for i in range(len(grp)):
                    name = 'X%d' % i
                    fa, fb = sut.entry(ma, name), sut.entry(mb, name)
                    for t in inputs:
                        oa = sut.run(ma, None, t, budget=diff.QUICK_BUDGET, fn=fa)
                        ob = sut.run(mb, None, t, budget=diff.QUICK_BUDGET, fn=fb)
                        res.evals += 1
                        bad = oa != ob
                        if not bad and bits is variants[0]:
                            try:
                                r = peg.Interp(g, t).run_rule(name)
                                bad = not sut.agrees(sut.expected(r, t), ob)
                            except (peg.StepLimit, peg.RefError, RecursionError):
                                res.hist['ref_outside_domain'] += 1
                        if oa[0] != 'FAIL':
                            res.nontrivial.add(h64(b, name, t))
                        if bad:
                            sub = peg.G([('rule', name, None, grp[i]), ('rule', 'start', None, ('ref', name))])
                            res.mismatch({'g': peg.g_to_dict(sub), 'bits': bits, 'entry': name, 'text': t})
                            break
            if len(res.samples) < 1:
                res.sample({'chain_rendering_minimal': peg.render2(g, variants[0])[:300], 'fully_parenthesised': a[:300]})
        return res

    def run_task(self, task):
        from hypothesis import given, settings, seed, HealthCheck, Phase, strategies as st
        if task[0] == 'chains':
            return self.run_chains(task)
        res = Result()
        _, s, n = task
        ge = group_expr_strategy()

        @st.composite
        def grammars(draw):
            m = draw(st.integers(0, 5))
            if m <= 1:
                return draw(gens_rich.rich_grammar(nrules=3, depth=3, mode='bytes' if draw(st.integers(0, 3)) == 0 else 'text')), 'rich'
            if m == 2:
                g = draw(gens.core_grammar(nrules=4, depth=4, mode=draw(st.sampled_from(['text', 'bytes']))))
                if draw(st.booleans()):
                    ign = [(draw(st.sampled_from([None, 'Sp'])), ('rx', ' +'))]
                    if draw(st.booleans()):
                        # several ignore statements, anonymous ones next to each other (on one line when the
                        # layout separates statements by ';')
                        ign = [(None, ('rx', ' +')), (None, ('lit', 'Z'))] + ([(None, ('lit', 'ZZ'))] if draw(st.booleans()) else [])
                    g = g.copy(ignores=ign, ignore_pos=draw(st.integers(0, 4)))
                return g, 'core'
            if m == 3:
                return peg.G([('rule', 'start', None, draw(ge))]), 'single'
            rules = list(gens_rich.BASE_RULES) + [('rule', 'X%d' % i, None, draw(ge)) for i in range(5)]
            rules.append(('rule', 'start', None, ('ref', 'X0')))
            return peg.G(rules), 'group'

        @seed(s)
        @settings(max_examples=n, database=None, deadline=None, phases=[Phase.generate],
                  suppress_health_check=list(HealthCheck), report_multiple_bugs=False)
        @given(grammars(), st.lists(st.integers(0, 62), min_size=NBITS, max_size=NBITS), st.data())
        def prop(gk, bits, data):
            g, kind = gk
            if kind == 'single' and g.rules[0][3][0] in ('lit', 'rx', 'ref'):
                return
            if kind == 'single':
                # BASE rules are needed by references: inline them away by using literals only
                rules = list(g.rules)
                g = peg.G(rules)
                if any(x[0] == 'ref' for x in peg.walk(rules[0][3])):
                    g = peg.G(list(gens_rich.BASE_RULES) + rules)
            alpha = 'ab12' if kind == 'rich' else ('ab ,' if kind in ('group', 'single') else 'ab Z')
            drawn = data.draw(st.lists(st.text(alphabet=alpha, min_size=5, max_size=9), min_size=20, max_size=20))
            if runner.over_budget(res):
                return
            res.hist['kind_' + kind] += 1
            a = peg.render(g)
            b = peg.render2(g, bits)
            ma, ea = sut.compile_grammar(a)
            mb, eb = sut.compile_grammar(b)
            if ma is None or mb is None:
                res.evals += 1
                res.mismatch({'g': peg.g_to_dict(g), 'bits': bits, 'entry': g.start_name(), 'text': ''})
                return
            bare = not hasattr(mb, 'start') or len(g.rules) == 1
            inputs = gens.all_inputs(alpha, 4, g.mode)[::1 if kind != 'rich' else 2]
            inputs += [t.encode('latin-1') if g.mode == 'bytes' else t for t in drawn]
            entries = [None] + [e for e in gens_rich.entry_points(g) if e[0] in 'RKXFs'][:6]
            dims = dimensions(a, b)
            for name in entries:
                rname = g.start_name() if name is None else name
                try:
                    fa, fb = sut.entry(ma, name), sut.entry(mb, name)
                except AttributeError:
                    res.mismatch({'g': peg.g_to_dict(g), 'bits': bits, 'entry': name, 'text': ''})
                    break
                stop = False
                for t in inputs:
                    oa = sut.run(ma, None, t, budget=diff.QUICK_BUDGET, fn=fa)
                    ob = sut.run(mb, None, t, budget=diff.QUICK_BUDGET, fn=fb)
                    res.evals += 1
                    bad = oa != ob
                    if not bad:
                        try:
                            r = peg.Interp(g, t).run_rule(rname)
                            if not sut.agrees(sut.expected(r, t), ob):
                                bad = True
                        except (peg.StepLimit, peg.RefError, RecursionError):
                            res.hist['ref_outside_domain'] += 1
                    if dims >= 2 and a.count('(') != b.count('('):
                        res.nontrivial.add(h64(b, name, t))
                        if len(res.samples) < 1 and oa[0] == 'OK':
                            res.sample({'rendering_A': a[-300:], 'rendering_B': b[-400:], 'entry': name, 'input': repr(t),
                                        'outcome': list(oa)})
                    if bad:
                        res.mismatch({'g': peg.g_to_dict(g), 'bits': bits, 'entry': name, 'text': t})
                        stop = True
                        break
                if stop:
                    break
        try:
            prop()
        except runner.StopTask:
            pass
        return res

    def replay(self, case):
        g = peg.g_from_dict(case['g'])
        a = peg.render(g)
        b = peg.render2(g, case['bits'])
        ma, ea = sut.compile_grammar(a)
        mb, eb = sut.compile_grammar(b)
        if ma is None:
            return {'bucket': 'compile-A', 'got': list(ea), 'grammar': a}
        if mb is None:
            return {'bucket': 'compile-B:%s' % (eb[1] if len(eb) > 1 else eb[0]), 'got': list(eb), 'rendering_A': a, 'rendering_B': b}
        name, t = case['entry'], case['text']
        try:
            fa, fb = sut.entry(ma, name), sut.entry(mb, name)
        except AttributeError as e:
            return {'bucket': 'entry-missing', 'detail': str(e), 'rendering_A': a, 'rendering_B': b}
        oa = diff.run_confirmed(ma, None, t, fn=fa)
        ob = diff.run_confirmed(mb, None, t, fn=fb)
        if oa != ob:
            return {'bucket': 'renderings-differ:%s-vs-%s' % (oa[0], ob[0]), 'A': list(oa), 'B': list(ob),
                    'rendering_A': a, 'rendering_B': b, 'entry': name, 'input': repr(t)}
        try:
            r = peg.Interp(g, t).run_rule(g.start_name() if name is None else name)
        except (peg.StepLimit, peg.RefError, RecursionError, KeyError):
            return None
        exp = sut.expected(r, t)
        if not sut.agrees(exp, ob):
            return {'bucket': 'both-renderings-differ-from-reference', 'expected': list(exp), 'got': list(ob),
                    'rendering_A': a, 'rendering_B': b, 'entry': name, 'input': repr(t)}
        return None

    def shrink(self, case, still_fails, deadline):
        def ok(c):
            g = peg.g_from_dict(c['g'])
            if c['entry'] is not None and c['entry'] not in g.ruledict():
                return False
            if not g.start_name():
                return False
            return diff.wellformed(g) and still_fails(c)
        best = shrink.shrink_case(case, ok, deadline)
        # simplify the rendering bits: zero them out from the end
        bits = list(best['bits'])
        for i in range(0, len(bits), 40):
            c = dict(best)
            nb = list(bits)
            nb[i:i + 40] = [0] * len(nb[i:i + 40])
            c['bits'] = nb
            if ok(c):
                bits = nb
                best = c
        return best

    def describe(self, case):
        g = peg.g_from_dict(case['g'])
        return {'rendering_A': peg.render(g), 'rendering_B': peg.render2(g, case['bits']), 'entry': case['entry'],
                'input': repr(case.get('text'))}

    def selftest(self):
        from selftest import test_peg
        test_peg.run()


if __name__ == '__main__':
    sys.exit(runner.main(C19()))
