"""C14 - parsed objects are values: equality, hashing, copying and repr agree.
Oracle: independent structural predicate `same` + snapshots.  DESIGN.md 4/C14."""
import sys
import copy
import pickle

from vlib import runner, sut, trees
from vlib.runner import Check, Result, h64


safe_repr = trees.safe_repr


def wrap_root(spec):
    return spec if spec[0] in ('obj', 'infix', 'prefix', 'postfix') else ('obj', 'K1', [spec])


def mutable_ids(v):
    out = set()
    stack = [v]
    while stack:
        x = stack.pop()
        if trees.is_obj(x):
            if id(x) in out:
                continue
            out.add(id(x))
            stack.extend(getattr(x, f) for f in x._fields)
        elif isinstance(x, (list, dict)):
            if id(x) in out:
                continue
            out.add(id(x))
            stack.extend(x.values() if isinstance(x, dict) else x)
        elif isinstance(x, tuple):
            stack.extend(x)
    return out


def metadata_list(v):
    out = []
    stack = [v]
    seen = set()
    while stack:
        x = stack.pop()
        if trees.is_obj(x):
            if id(x) in seen:
                continue
            seen.add(id(x))
            out.append(repr(x._metadata.position_info))
            stack.extend(getattr(x, f) for f in reversed(x._fields))
        elif isinstance(x, (list, tuple)):
            stack.extend(reversed(x))
        elif isinstance(x, dict):
            stack.extend(reversed(list(x.values())))
    return out


def check_case(mod, case):
    """Returns None or a (bucket, detail) describing the violated clause."""
    sa = wrap_root(case['a'])
    sb = wrap_root(case['b'])
    sc = wrap_root(case['c'])
    if case.get('parsed'):
        try:
            a = mod.parse(trees.to_text(sa))
        except Exception as e:
            return ('harness:unparseable', repr(e))
        ref = trees.build(sa, mod)
        if not trees.same(a, ref):
            return ('parse-vs-constructor', trees.to_text(sa))
    else:
        a = trees.build(sa, mod)
    b = trees.build(sb, mod, reverse_dicts=case.get('revdict', False))
    c = trees.build(sc, mod)
    snap = trees.snapshot(a)
    # --- equality
    for x, y in ((a, b), (b, a), (a, c), (b, c), (a, a)):
        s = trees.same(x, y)
        if (x == y) != s:
            return ('eq-vs-structure', 'same=%r ==%r' % (s, x == y))
        if (x != y) != (not s):
            return ('ne-inconsistent', '')
    if (a == b) != (b == a):
        return ('eq-asymmetric', '')
    if a == b and b == c and not a == c:
        return ('eq-intransitive', '')
    # --- hashing
    try:
        ha, hb, hc = hash(a), hash(b), hash(c)
    except Exception as e:
        return ('hash-raises:' + type(e).__name__, str(e)[:100])
    if trees.same(a, b) and ha != hb:
        return ('equal-objects-different-hash', '')
    if trees.same(a, c) and ha != hc:
        return ('equal-objects-different-hash', '')
    if hash(a) != ha:
        return ('hash-unstable', '')
    # --- equality again, now that every object has been hashed (and may remember its hash)
    for x, y in ((a, b), (b, a), (a, c), (b, c), (c, a)):
        s = trees.same(x, y)
        if (x == y) != s:
            return ('eq-vs-structure-after-hashing', 'same=%r ==%r' % (s, x == y))
        if (x != y) != (not s):
            return ('ne-inconsistent-after-hashing', '')
    fresh = trees.build(sa, mod)
    if not (fresh == a and a == fresh) or (fresh == b) != trees.same(a, b) or (b == fresh) != trees.same(a, b):
        return ('eq-hashed-vs-never-hashed', '')
    classes = []
    for x in (a, b, c):
        if not any(trees.same(x, y) for y in classes):
            classes.append(x)
    if len({a, b, c}) != len(classes):
        return ('set-merges-or-splits-values', 'set has %d members, %d distinct values' % (len({a, b, c}), len(classes)))
    # --- _asdict
    d = a._asdict()
    if tuple(d.keys()) != tuple(trees.FIELDS[type(a).__name__]) or tuple(d.keys()) != tuple(a._fields):
        return ('asdict-order', repr(list(d.keys())))
    if any(d[k] is not getattr(a, k) for k in d):
        return ('asdict-values', '')
    # --- _replace
    fields = list(a._fields)
    for nrep in range(len(fields) + 1):
        kw = {f: ('NEW', i) for i, f in enumerate(fields[:nrep])}
        r = a._replace(**dict(kw))
        if r is a:
            return ('replace-returns-self', str(nrep))
        if type(r) is not type(a):
            return ('replace-type', '')
        for f in fields:
            if f in kw:
                if getattr(r, f) != kw[f]:
                    return ('replace-field-not-set', f)
            elif getattr(r, f) is not getattr(a, f):
                return ('replace-other-field-changed', f)
        if repr(r._metadata.position_info) != repr(a._metadata.position_info):
            return ('replace-drops-metadata', '')
        if r._metadata is a._metadata:
            return ('replace-shares-metadata', '')
        if nrep and r == a and not trees.same(r, a):
            return ('replace-eq', '')
        # an independently constructed equal object must hash like the _replace result
        twin = type(a)(*[getattr(r, f) for f in fields])
        try:
            if hash(twin) != hash(r):
                return ('replace-result-hash', str(nrep))
        except TypeError:
            pass    # ('NEW', i) markers are hashable; other fields were hashed above
    # boundary values: a field can be replaced by None and by every other falsy value
    for f in fields:
        for val in (None, 0, False, '', [], ()):
            r = a._replace(**{f: val})
            if getattr(r, f) is not val and getattr(r, f) != val or type(getattr(r, f)) is not type(val):
                return ('replace-by-falsy-value-ignored', '%s=%r gives %r' % (f, val, getattr(r, f)))
            if any(getattr(r, g) is not getattr(a, g) for g in fields if g != f):
                return ('replace-other-field-changed', f)
    if trees.snapshot(a) != snap:
        return ('replace-mutates-original', '')
    # --- deepcopy
    try:
        dc = copy.deepcopy(a)
    except Exception as e:
        return ('deepcopy-raises:' + type(e).__name__, str(e)[:100])
    if not trees.same(dc, a) or not (dc == a):
        return ('deepcopy-not-equal', '')
    if mutable_ids(dc) & mutable_ids(a):
        return ('deepcopy-shares-mutable-node', '')
    if metadata_list(dc) != metadata_list(a):
        return ('deepcopy-metadata', '')
    # --- pickle (the module is installed under a name)
    try:
        pk = pickle.loads(pickle.dumps(a))
    except Exception as e:
        return ('pickle-raises:' + type(e).__name__, str(e)[:100])
    if not trees.same(pk, a) or metadata_list(pk) != metadata_list(a):
        return ('pickle-roundtrip', '')
    # --- repr
    try:
        rb = eval(repr(a), dict(vars(mod)))
    except Exception as e:
        return ('repr-eval-raises:' + type(e).__name__, str(e)[:100])
    if not trees.same(rb, a):
        return ('repr-roundtrip', repr(a)[:200])
    if trees.snapshot(a) != snap:
        return ('input-mutated', '')
    return None


class C14(Check):
    id = 'C14'
    technique = 'PBT: hypothesis recursive trees (shared nodes, containers, parsed trees with metadata), independent structural oracle'
    rule = ('cases = triples of result trees (a, b, c): a from a recursive strategy over classes of arity 0-3, '
            'Infix/Prefix/Postfix, lists, tuples, dicts, leaves (None, cached and big ints, bools, floats, str, bytes) '
            'and shared sub-objects, or parsed from text (carrying position metadata); b = a copy of a with 0 or 1 leaf '
            'perturbed (dict insertion order optionally reversed); c independent or = b. Checks ==/!= against an '
            'independent structural predicate, symmetry, transitivity, hash consistency, _asdict, _replace, deepcopy, '
            'pickle and eval(repr). Non-trivial iff a has >= 2 object nodes and a list/tuple/dict field, and (a, b) is '
            'equal-but-not-identical or differs in exactly one leaf; distinct by the triple of specs.')
    assumptions = ['NaN excluded; fields are not mutated after hashing', 'pickle only for a grammar installed under a name']
    budget_quick = 120
    budget_thorough = 1200

    def tasks(self, tier, seed):
        n = 16 if tier == 'quick' else 64
        per = 2500 if tier == 'quick' else 20000
        return [('hyp', seed * 1000003 + s, per) for s in range(n)]

    def run_task(self, task):
        from hypothesis import given, settings, seed, HealthCheck, Phase, strategies as st
        res = Result()
        _, s, n = task
        mod = trees.get_module()

        @seed(s)
        @settings(max_examples=n, database=None, deadline=None, phases=[Phase.generate],
                  suppress_health_check=list(HealthCheck), report_multiple_bugs=False)
        @given(st.data())
        def prop(data):
            parsed = data.draw(st.integers(0, 3)) == 0
            a = data.draw(trees.spec_strategy(parseable=parsed))
            how = data.draw(st.sampled_from(['copy', 'copy', 'perturb', 'perturb', 'swapcls', 'independent', 'anagram', 'anagram', 'pairs']))
            revdict = data.draw(st.booleans())
            if how == 'copy':
                b = a
            elif how == 'perturb':
                b, _ = trees.perturb(a, data.draw(st.integers(0, 40)), data.draw(trees.leaf_strategy()))
            elif how == 'swapcls':
                b, _ = trees.swap_class(a, data.draw(st.integers(0, 40)))
            elif how == 'anagram':
                b, _ = trees.anagram(a, data.draw(st.integers(0, 40)))
            elif how == 'pairs':
                # (x, x) against (y, y): the same multiplicities, different parts
                k = data.draw(st.integers(0, 40))
                a, _ = trees.anagram(a, k, 1)
                b, _ = trees.perturb(a, data.draw(st.integers(0, 40)), data.draw(trees.leaf_strategy()))
                b, _ = trees.anagram(b, k, 1)
            else:
                b = data.draw(trees.spec_strategy(max_leaves=6))
            c = b if data.draw(st.booleans()) else data.draw(trees.spec_strategy(max_leaves=5))
            case = {'a': a, 'b': b, 'c': c, 'parsed': parsed, 'revdict': revdict}
            if runner.over_budget(res):
                return
            res.evals += 1
            res.hist['pair_' + how] += 1
            res.hist['parsed' if parsed else 'constructed'] += 1
            bad = check_case(mod, case)
            oa = trees.build(wrap_root(a), mod)
            nt = trees.count_objects(oa) >= 2 and trees.has_kind(a, ('list', 'tuple', 'dict')) and how in ('copy', 'perturb', 'swapcls', 'anagram', 'pairs')
            if trees.has_kind(a, ('share',)):
                res.hist['with_shared_node'] += 1
            if nt:
                res.nontrivial.add(h64(repr(case)))
                res.hist['nontrivial'] += 1
                if len(res.samples) < 1:
                    res.sample({'a': safe_repr(oa)[:300], 'pair': how, 'parsed': parsed})
            if bad is not None:
                res.mismatch(case)
        try:
            prop()
        except runner.StopTask:
            pass
        return res

    def replay(self, case):
        mod = trees.get_module()
        bad = check_case(mod, case)
        if bad is None:
            return None
        return {'bucket': bad[0], 'detail': bad[1], 'a': safe_repr(trees.build(wrap_root(case['a']), mod))[:500]}

    def shrink(self, case, still_fails, deadline):
        return shrink_specs(case, still_fails, deadline, ('a', 'b', 'c'))

    def describe(self, case):
        mod = trees.get_module()
        return {k: safe_repr(trees.build(wrap_root(case[k]), mod))[:600] for k in ('a', 'b', 'c')}


def spec_children(s):
    k = s[0]
    if k == 'obj':
        return list(s[2])
    if k in ('list', 'tuple'):
        return list(s[1])
    if k == 'dict':
        return [c for _, c in s[1]]
    if k == 'infix':
        return [s[1], s[3]]
    if k == 'prefix':
        return [s[2]]
    if k == 'postfix':
        return [s[1]]
    return []


def spec_variants(s):
    """Smaller specs: a child, or the node with one child replaced by a tiny leaf / dropped."""
    for c in spec_children(s):
        yield c
    k = s[0]
    if k in ('list', 'tuple') and s[1]:
        for i in range(len(s[1])):
            yield (k, s[1][:i] + s[1][i + 1:])
    if k == 'dict' and s[1]:
        for i in range(len(s[1])):
            yield (k, s[1][:i] + s[1][i + 1:])
    if k in ('share',):
        yield ('leaf', None)
    if k == 'leaf' and s[1] not in (None, 0):
        yield ('leaf', 0)


def spec_set_child(s, i, new):
    k = s[0]
    if k == 'obj':
        cs = list(s[2]); cs[i] = new
        return ('obj', s[1], cs)
    if k in ('list', 'tuple'):
        cs = list(s[1]); cs[i] = new
        return (k, cs)
    if k == 'dict':
        cs = list(s[1]); cs[i] = (cs[i][0], new)
        return (k, cs)
    if k == 'infix':
        return ('infix', new, s[2], s[3]) if i == 0 else ('infix', s[1], s[2], new)
    if k == 'prefix':
        return ('prefix', s[1], new)
    if k == 'postfix':
        return ('postfix', new, s[2])
    raise ValueError(k)


def shrink_spec(spec, ok, deadline):
    import time
    changed = True
    while changed and time.time() < deadline:
        changed = False
        # try variants at every path, outermost first
        todo = [()]
        while todo and time.time() < deadline:
            path = todo.pop(0)
            node = spec
            for i in path:
                node = spec_children(node)[i]
            done = False
            for v in spec_variants(node):
                cand = v
                # rebuild along the path
                def put(s, p, new):
                    if not p:
                        return new
                    return spec_set_child(s, p[0], put(spec_children(s)[p[0]], p[1:], new))
                cand = put(spec, path, v)
                if ok(cand):
                    spec = cand
                    changed = done = True
                    break
            if done:
                break
            for i in range(len(spec_children(node))):
                todo.append(path + (i,))
    return spec


def shrink_specs(case, still_fails, deadline, keys):
    best = dict(case)
    for k in keys:
        def ok(sp, k=k):
            c = dict(best)
            if k == 'a' and best.get('b') == best.get('a'):
                c['b'] = sp
            if k == 'b' and best.get('c') == best.get('b'):
                c['c'] = sp
            c[k] = sp
            if still_fails(c):
                best.update(c)
                return True
            return False
        shrink_spec(best[k], ok, deadline)
    return best


if __name__ == '__main__':
    sys.exit(runner.main(C14()))
