"""C12 - the shipped grammar-description parser is a fixed point of the generator.
gen0 = shipped sourcer/parser.py; gen1 = grammar.txt compiled by the current tree; gen2 = gen1
installed into a scratch copy of the package and regenerated once more (separate process).
Checks: gen1 parses grammar.txt; gen1 text == gen2 text; gen0 and gen1 parse every description of
the repository, generated descriptions (all spellings) and corrupted descriptions to the same
tree (repr) or reject them with the same error class at the same index.  DESIGN.md 4/C12."""
import os
import re
import sys
import glob
import shutil
import tempfile
import subprocess

from vlib import runner, peg, gens, gens_rich, sut
from vlib.runner import Check, Result, h64
from checks import c02

REPO = sut.REPO
_state = {}


KEYWORDISH = ['letter', 'lethal', 'let_count', 'classy', 'classes', 'ignored_x', 'ignoreme', 'inner', 'inx', 'passes', 'password',
              'requiresX', 'required', 'whereabouts', 'wherever', 'betweenness', 'grammarian', 'extendsX', 'overrideX', 'overrides_',
              'leftover', 'rightful', 'infixx', 'prefixx', 'postfixes', 'mixfixx', 'Truex', 'Nonesuch', 'Falsetto', 'iffy', 'bx', 'Bx',
              'ix', 'rx', 'between_', 'in_', 'letX', 'class_', 'pass_', 'where_', 'ignore_', 'grammar_', 'extends_', 'left_', 'right_']


def grammar_txt():
    with open(os.path.join(REPO, 'grammar.txt')) as f:
        return f.read()


def gen0():
    import sourcer.parser as p
    return p


def gen1():
    if 'gen1' not in _state:
        mod, err = sut.compile_grammar(grammar_txt(), include_source=True, budget=120.0)
        if mod is None:
            raise RuntimeError('grammar.txt does not compile with the current tree: %r' % (err,))
        _state['gen1'] = mod
    return _state['gen1']


def corpus():
    """Every grammar description found in the repository (tests, docs, README, examples)."""
    if 'corpus' in _state:
        return _state['corpus']
    out = [grammar_txt()]
    files = []
    for pat in ('tests/*.py', 'examples/*.py', 'README.md', 'docs/*.md', 'docs/**/*.md', 'docs/*.rst', 'docs/*.txt'):
        files += glob.glob(os.path.join(REPO, pat), recursive=True)
    rx = re.compile(r"Grammar\(\s*[rR]?('''|\"\"\")(.*?)\1", re.S)
    rx2 = re.compile(r"Grammar\(\s*[rR]?('|\")((?:[^'\"\\\n]|\\.)*)\1")
    rx3 = re.compile(r"~~~\n(.*?)\n~~~", re.S)
    for fn in sorted(set(files)):
        try:
            s = open(fn, encoding='utf-8').read()
        except Exception:
            continue
        for m in rx.finditer(s):
            out.append(m.group(2))
        for m in rx2.finditer(s):
            out.append(m.group(2))
        if fn.endswith('metasyntax.md'):
            for m in rx3.finditer(s):
                out.append(m.group(1).replace('\\\\', '\\'))
    seen, uniq = set(), []
    for d in out:
        if d not in seen:
            seen.add(d)
            uniq.append(d)
    _state['corpus'] = uniq
    return uniq


def outcome(mod, desc):
    try:
        with sut.timeout(20.0):
            try:
                return ('OK', repr(mod.parse(desc)))
            except mod.PartialParseError as e:
                return ('PARTIAL', e.last_position.index)
            except mod.ParseError as e:
                return ('FAIL', e.position.index)
    except sut.Hang:
        return ('HANG',)
    except RecursionError:
        return ('EXC', 'RecursionError')
    except Exception as e:
        return ('EXC', type(e).__name__, str(e)[:100])


def statement_kinds(desc):
    k = 0
    for pat in (r'^\s*class\s', r'^\s*ignored?\s', r'^\s*grammar\s', r'```', r'between\s*\{', r'^\s*\w+\(.*\)\s*(=|:|=>)',
                r'^\s*\w+\s*(=|:|=>)'):
        if re.search(pat, desc, re.M):
            k += 1
    return k


def corrupt(desc, ops):
    """Apply edit operations (kind, position fraction, payload index)."""
    junk = ['(', ')', '[', ']', '{', '}', '|', '>>', '<<', '`', '"', "'", '/', ',', ';', '=', ':', '?', '*', '+', '\n', '#', ' between ',
            'class ', 'let ', ' in ', 'ignore ', '\\', '//', '/?', '|>', '<|', ' where ', '0x', 'b"', '"""', '=>', '.', '~']
    d = desc
    for kind, frac, k in ops:
        if not d:
            break
        i = min(len(d) - 1, int(frac * len(d)))
        if kind == 0:
            d = d[:i] + d[i + 1:]
        elif kind == 1:
            d = d[:i] + junk[k % len(junk)] + d[i:]
        elif kind == 2 and i + 1 < len(d):
            d = d[:i] + d[i + 1] + d[i] + d[i + 2:]
        elif kind == 3:
            d = d[:i]
        elif kind == 4:
            lines = d.split('\n')
            if len(lines) > 2:
                a = int(frac * (len(lines) - 1))
                b = k % len(lines)
                lines[a], lines[b] = lines[b], lines[a]
                d = '\n'.join(lines)
        elif kind == 5:
            j = min(len(d), i + 1 + k % 12)
            d = d[:i] + d[i:j] + d[i:j] + d[j:]
        elif kind == 6:
            j = min(len(d), i + 1 + k % 20)
            d = d[:i] + d[j:]
    return d


def regenerate(gen1_source):
    """Install gen1 as parser.py in a scratch copy of the package and regenerate: returns gen2 text
    or raises."""
    tmp = tempfile.mkdtemp(prefix='vfc12_')
    try:
        shutil.copytree(os.path.join(REPO, 'sourcer'), os.path.join(tmp, 'sourcer'),
                        ignore=shutil.ignore_patterns('__pycache__'))
        shutil.copy(os.path.join(REPO, 'grammar.txt'), os.path.join(tmp, 'grammar.txt'))
        with open(os.path.join(tmp, 'sourcer', 'parser.py'), 'w') as f:
            f.write('# Generated by ../generate_parser.py\n')
            f.write(gen1_source)
        code = ("import sys; sys.path.insert(0, %r); import sourcer; assert sourcer.__file__.startswith(%r), sourcer.__file__; "
                "d = open(%r).read(); g = sourcer.Grammar(d, include_source=True); assert g.parse(d); "
                "sys.stdout.write(g._source_code)") % (tmp, tmp, os.path.join(tmp, 'grammar.txt'))
        env = dict(os.environ)
        env.pop('PYTHONPATH', None)
        env['PYTHONHASHSEED'] = '4242'     # another hash seed: the text must not depend on set/dict order
        r = subprocess.run([sys.executable, '-c', code], capture_output=True, text=True, timeout=300, cwd=tmp, env=env)
        if r.returncode != 0:
            raise RuntimeError('regeneration with the installed gen1 parser failed: ' + r.stderr[-600:])
        return r.stdout
    finally:
        shutil.rmtree(tmp, ignore_errors=True)


def run_fuzz(seconds, fuzz_seed, with_corpus):
    """One atheris session (tooling venv, separate process).  Returns (executions, [descriptions on
    which gen0 and gen1 disagreed], note)."""
    fuzzer = os.path.join(os.path.dirname(os.path.abspath(__file__)), 'c12_fuzz.py')
    vt = '/opt/veriftools/pyvenv/bin/python'
    if not os.path.exists(vt):
        return 0, [], 'tooling venv not present'
    tmp = tempfile.mkdtemp(prefix='vfc12f_')
    try:
        g1p = os.path.join(tmp, 'gen1.py')
        with open(g1p, 'w') as f:
            f.write(gen1()._source_code)
        cdir = os.path.join(tmp, 'corpus')
        os.makedirs(cdir)
        if with_corpus:
            for i, d in enumerate(corpus()):
                if len(d) <= 400:
                    with open(os.path.join(cdir, 'c%03d' % i), 'w', encoding='utf-8') as f:
                        f.write(d)
        out = os.path.join(tmp, 'out')
        cmd = [vt, fuzzer, os.path.join(REPO, 'sourcer', 'parser.py'), g1p, out, cdir, '-max_total_time=%d' % seconds,
               '-seed=%d' % (fuzz_seed or 1), '-max_len=400', '-print_final_stats=1', '-artifact_prefix=%s/' % tmp,
               '-timeout=30', '-rss_limit_mb=4096']
        env = {'PATH': '/usr/bin:/bin', 'PYTHONHASHSEED': '0'}
        try:
            r = subprocess.run(cmd, capture_output=True, text=True, timeout=seconds + 120, env=env, cwd=tmp)
            log = r.stderr + r.stdout
        except subprocess.TimeoutExpired as e:
            log = (e.stderr or b'').decode('utf-8', 'replace') if isinstance(e.stderr, bytes) else (e.stderr or '')
        m = re.search(r'stat::number_of_executed_units:\s*(\d+)', log)
        execs = int(m.group(1)) if m else 0
        if not m:
            ms = re.findall(r'#(\d+)\s', log)
            execs = int(ms[-1]) if ms else 0
        found = []
        if os.path.isdir(out):
            for fn in sorted(os.listdir(out)):
                with open(os.path.join(out, fn), encoding='utf-8') as f:
                    found.append(f.read())
        note = ''
        if execs == 0:
            note = 'fuzzer did not run: ' + log[-300:]
        return execs, found, note
    finally:
        shutil.rmtree(tmp, ignore_errors=True)


def first_difference(a, b):
    for i, (x, y) in enumerate(zip(a, b)):
        if x != y:
            return i
    return min(len(a), len(b))


class C12(Check):
    id = 'C12'
    technique = 'PBT/differential: 3-generation bootstrap (gen1 text == gen2 text) + gen0 vs gen1 on repository corpus, generated descriptions in all spellings, hypothesis-corrupted descriptions and a coverage-guided atheris/libFuzzer differential target'
    rule = ('cases = grammar descriptions given to both the shipped parser (gen0) and the parser generated from grammar.txt by '
            'the current tree (gen1): (i) every description in the repository (tests, README, docs, examples, grammar.txt), '
            'extracted at run time; (ii) descriptions rendered by the generators in random spellings/layouts (rich grammars, '
            'core grammars, operator tables, grammar headers with extends); (iii) corrupted versions of (i)+(ii): 1-3 hypothesis-'
            'drawn edits (delete, insert punctuation/keyword, transpose, truncate, swap lines, duplicate or drop a span). Same '
            'repr(tree), or same error class at the same index. Plus the history gen0 -> gen1 -> gen2: gen1 parses grammar.txt, '
            'gen1 installed in a scratch copy regenerates in a separate process to exactly its own text. (iv) coverage-guided '
            'fuzzing: an atheris target (tooling venv) with the same differential oracle inside, seeded with the repository '
            'corpus and with an empty corpus (quick: one 25 s session; thorough: 8 sessions of 7 min); its executions are '
            'counted in evaluations but not in distinct_nontrivial. Non-trivial iff the '
            'description has >= 3 statement kinds, or is a corrupted one rejected at an index > 0; distinct by description text.')
    assumptions = ['gen0 vs gen1 is compared behaviourally, not textually (a refactoring of the generator may change the text of gen1)']
    budget_quick = 170
    budget_thorough = 1500

    def tasks(self, tier, seed):
        n = 15 if tier == 'quick' else 60
        per = 150 if tier == 'quick' else 1200
        fuzz = [('fuzz', 25, seed * 17 + 1, True)] if tier == 'quick' else \
            [('fuzz', 420, seed * 17 + k, k % 2 == 0) for k in range(8)]
        return [('bootstrap',)] + [('corpus',)] + fuzz + [('hyp', seed * 1000003 + s, per) for s in range(n)]

    def compare(self, res, desc, tag, corrupted=False):
        a = outcome(gen0(), desc)
        b = outcome(gen1(), desc)
        res.evals += 1
        res.hist[tag + '_' + a[0]] += 1
        nt = (statement_kinds(desc) >= 3 and not corrupted) or (corrupted and a[0] in ('FAIL', 'PARTIAL') and a[1] > 0)
        if nt:
            res.nontrivial.add(h64(desc))
        if a != b:
            res.mismatch({'desc': desc})
            return False
        return True

    def run_task(self, task):
        res = Result()
        if task[0] == 'bootstrap':
            g1 = gen1()
            res.evals += 1
            res.nontrivial.add(h64('bootstrap'))
            bad = bootstrap_problem()
            res.sample({'bootstrap': 'gen1 (%d bytes) regenerated through a scratch copy of the package' % len(g1._source_code)})
            if bad:
                res.mismatch({'bootstrap': True})
            return res
        if task[0] == 'fuzz':
            _, seconds, fseed, with_corpus = task
            execs, found, note = run_fuzz(seconds, fseed, with_corpus)
            res.evals += execs
            res.hist['fuzz_executions'] += execs
            res.hist['fuzz_sessions'] += 1
            if note:
                res.hist['fuzz_note_' + note[:60]] += 1
            res.sample({'atheris_session_seconds': seconds, 'executions': execs, 'corpus': 'repository descriptions' if with_corpus else 'empty'})
            for d in found:
                res.mismatch({'desc': d})
            return res
        if task[0] == 'corpus':
            for d in corpus():
                self.compare(res, d, 'corpus')
            res.hist['corpus_size'] = len(corpus())
            res.sample({'corpus_descriptions': len(corpus()), 'first': corpus()[1][:200] if len(corpus()) > 1 else ''})
            return res
        from hypothesis import given, settings, seed, HealthCheck, Phase, strategies as st
        _, s, n = task
        cps = corpus()

        @st.composite
        def generated(draw):
            m = draw(st.integers(0, 5))
            bits = draw(st.lists(st.integers(0, 62), min_size=300, max_size=300))
            if m <= 1:
                g = draw(gens_rich.rich_grammar(nrules=3, depth=3))
            elif m == 2:
                g = draw(gens.core_grammar(nrules=4, depth=4, mode=draw(st.sampled_from(['text', 'bytes']))))
                g = g.copy(ignores=[(draw(st.sampled_from([None, 'Sp'])), ('rx', ' +'))], ignore_pos=draw(st.integers(0, 4)))
            elif m == 3:
                rows, operand_kind, use_ignore, mix = draw(c02.table_strategy())
                g = c02.make_grammar(rows, operand_kind, use_ignore, mix)
            else:
                g = draw(gens_rich.rich_grammar(nrules=2, depth=2, use_lib=False))
                g = g.copy(header=draw(st.sampled_from(['mod', 'pkg.mod', 'a.b.c'])),
                           extends=draw(st.sampled_from([None, 'base', 'pkg.base'])))
            if draw(st.booleans()):
                # names that begin with a word of the description language (keyword boundaries)
                from vlib import renaming
                from checks.c20 import grammar_names
                pool = draw(st.permutations(KEYWORDISH))
                olds = sorted(n for n in grammar_names(g) if n.lower() != 'start')
                mapping = dict(zip(olds, pool))
                try:
                    g = renaming.rename_grammar(g, mapping)
                except Exception:
                    pass
            return peg.render2(g, bits) if draw(st.booleans()) else peg.render(g)
        edit = st.tuples(st.integers(0, 6), st.floats(0, 1, allow_nan=False), st.integers(0, 100))

        @seed(s)
        @settings(max_examples=n, database=None, deadline=None, phases=[Phase.generate],
                  suppress_health_check=list(HealthCheck), report_multiple_bugs=False)
        @given(generated(), st.integers(0, len(cps) - 1), st.lists(st.lists(edit, min_size=1, max_size=3), min_size=6, max_size=6))
        def prop(desc, ci, edits):
            if runner.over_budget(res):
                return
            self.compare(res, desc, 'generated')
            for j, ops in enumerate(edits):
                base = desc if j % 2 == 0 else cps[ci]
                self.compare(res, corrupt(base, ops), 'corrupted', corrupted=True)
            if len(res.samples) < 1:
                res.sample({'generated_description': desc[:300], 'corrupted_example': corrupt(desc, edits[0])[:200]})
        prop()
        return res

    def replay(self, case):
        if case.get('bootstrap'):
            bad = bootstrap_problem()
            return bad
        a = outcome(gen0(), case['desc'])
        b = outcome(gen1(), case['desc'])
        if a == b:
            return None
        return {'bucket': 'gen0-vs-gen1:%s-vs-%s' % (a[0], b[0]), 'shipped_parser': [str(x)[:300] for x in a],
                'regenerated_parser': [str(x)[:300] for x in b], 'description': case['desc'][:1500]}

    def shrink(self, case, still_fails, deadline):
        import time
        if case.get('bootstrap'):
            return case
        d = case['desc']
        # line-wise then char-wise delta debugging
        for unit in ('\n', None):
            parts = d.split('\n') if unit else list(d)
            i = 0
            while i < len(parts) and time.time() < deadline:
                cand = parts[:i] + parts[i + 1:]
                cd = ('\n' if unit else '').join(cand)
                if still_fails({'desc': cd}):
                    parts = cand
                else:
                    i += 1
            d = ('\n' if unit else '').join(parts)
            if len(d) > 400:
                break
        return {'desc': d}

    def describe(self, case):
        return dict(case)


def bootstrap_problem():
    g1 = gen1()
    d = grammar_txt()
    try:
        t = g1.parse(d)
        assert type(t).__name__ == 'GrammarDef'
    except Exception as e:
        return {'bucket': 'gen1-does-not-accept-grammar.txt', 'detail': '%s: %s' % (type(e).__name__, str(e)[:300])}
    try:
        g2 = regenerate(g1._source_code)
    except Exception as e:
        return {'bucket': 'regeneration-fails', 'detail': str(e)[:800]}
    if g2 != g1._source_code:
        i = first_difference(g1._source_code, g2)
        return {'bucket': 'gen1-text-differs-from-gen2', 'first_difference_at': i, 'gen1': g1._source_code[max(0, i - 80):i + 120],
                'gen2': g2[max(0, i - 80):i + 120]}
    return None


if __name__ == '__main__':
    sys.exit(runner.main(C12()))
