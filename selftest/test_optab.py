"""Hand-computed operator-table cases for the precedence-climbing reference."""
from vlib import peg


def T(rows, operand=('rx', '[0-9]')):
    return peg.G([('rule', 'E', None, ('optable', operand, [(a, [('lit', o) for o in ops]) for a, ops in rows])),
                  ('rule', 'start', None, ('ref', 'E'))])


def run():
    def p(g, t):
        r = peg.Interp(g, t).run_rule('start')
        return None if r is None else (peg.canon(r[0]), r[1])
    I = lambda l, o, r: "<Infix left=%s operator=s'%s' right=%s>" % (l, o, r)
    P = lambda o, r: "<Prefix operator=s'%s' right=%s>" % (o, r)
    S = lambda l, o: "<Postfix left=%s operator=s'%s'>" % (l, o)
    n = lambda d: "s'%s'" % d
    g = T([('left', ['*']), ('left', ['+'])])
    assert p(g, '1+2*3') == (I(n(1), '+', I(n(2), '*', n(3))), 5)
    assert p(g, '1*2+3') == (I(I(n(1), '*', n(2)), '+', n(3)), 5)
    assert p(g, '1+2+3') == (I(I(n(1), '+', n(2)), '+', n(3)), 5)
    assert p(g, '1+') == (n(1), 1)
    assert p(g, '+1') is None
    g = T([('right', ['^'])])
    assert p(g, '1^2^3') == (I(n(1), '^', I(n(2), '^', n(3))), 5)
    g = T([('infix', ['<'])])
    assert p(g, '1<2<3') == (I(n(1), '<', n(2)), 3)
    g = T([('prefix', ['-']), ('infix', ['-'])])
    assert p(g, '1-2-3') == (I(n(1), '-', n(2)), 3)
    assert p(g, '-1--2') == (I(P('-', n(1)), '-', P('-', n(2))), 5)
    g = T([('left', ['*']), ('prefix', ['-'])])
    assert p(g, '2*-3*4') == (I(n(2), '*', P('-', I(n(3), '*', n(4)))), 6)
    g = T([('left', ['+']), ('postfix', ['!'])])
    assert p(g, '1+2!') == (S(I(n(1), '+', n(2)), '!'), 4)
    g = T([('postfix', ['!']), ('left', ['+'])])
    assert p(g, '1+2!') == (I(n(1), '+', S(n(2), '!')), 4)
    g = T([('left', ['+']), ('left', ['++'])])
    assert p(g, '1++2') == (I(n(1), '++', n(2)), 4)       # longest across rows
    g = T([('left', ['+', '++'])])
    assert p(g, '1++2') == (n(1), 1)                      # ordered choice inside a row
    g = T([('left', ['*']), ('infix', ['<'])])
    assert p(g, '1<2*3<4') == (I(n(1), '<', I(n(2), '*', n(3))), 5)


if __name__ == '__main__':
    run()
    print('ok')
