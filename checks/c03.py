"""C03 - bounded repetition and separated lists honour their bounds and options.
Oracle: reference interpreter + direct bound/trailer invariants.  DESIGN.md 4/C03."""
import sys
import random
import itertools

from vlib import runner, peg, gens, sut, shrink, diff
from vlib.runner import Check, Result, h64
from vlib.diff import reachable_subgrammar, wellformed

ALPHA = 'ab,Z'
PER_GRAMMAR = 32

ELEMS = [('lit', 'a'), ('rx', 'a+'), ('seq', [('lit', 'a'), ('lit', 'b')]),
         ('right', ('lit', 'a'), ('lit', 'b')), ('ref', 'KA')]
SEPS = [('lit', ','), ('lit', 'b'), ('right', ('lit', ','), ('opt', ('lit', 'b'))),
        ('seq', [('lit', ','), ('lit', ',')])]
HELPERS = [('class', 'KA', None, [('field', 'v', ('lit', 'a'))])]


def bounds_forms(k=3):
    out = []
    for n in range(k + 1):
        out.append((n, n))
        out.append((None, n))
        out.append((n, None))
        for m in range(n + 1):
            if m != n:
                out.append((m, n))
    return out


def contexts(x, xnullable):
    out = [
        ('X', x),
        ('alt', ('choice', [x, ('lit', 'aab')])),
        ('seq', ('seq', [x, ('lit', 'a')])),
        ('opt', ('right', ('opt', x), ('rx', '[ab,]*'))),
        ('expect', ('right', ('expect', x), ('rx', '[ab,]*'))),
        ('expectnot', ('right', ('expectnot', x), ('rx', '[ab,]*'))),
        ('longest', ('longest', [x, ('rx', 'a?')])),
    ]
    if not xnullable:
        out.append(('rep', ('rep', ('seq', [x, ('lit', ',')]), 0, None)))
        out.append(('skip', ('right', ('skip', [x]), ('rx', '[ab,]*'))))
    return out


def rep_variants(e, lo, hi):
    """(tag, extra rules, expression) for literal and data-dependent bounds."""
    out = [('literal', [], ('rep', e, lo, hi))]
    sym = lambda b, nm: nm if b is not None else None
    bind = lambda body: body
    # let-bound names
    body = ('rep', e, sym(lo, 'm'), sym(hi, 'n'))
    if lo is not None:
        body = ('let', 'm', ('py', str(lo)), body)
    if hi is not None:
        body = ('let', 'n', ('py', str(hi)), body)
    if lo == hi and lo is not None:
        body = ('let', 'n', ('py', str(hi)), ('rep', e, 'n', 'n'))
    out.append(('let', [], body))
    # inline python arithmetic on a bound name
    if hi is not None and hi >= 1:
        lo2 = lo if (lo is None or isinstance(lo, int)) else lo
        out.append(('pyexpr', [], ('let', 'k', ('py', str(hi - 1)),
                                   ('rep', e, '`k+1`' if lo == hi else lo, '`k+1`'))))
    return out


def template_variant(idx, e, lo, hi):
    name = 'T%03d' % idx
    params = []
    args = []
    if lo is not None:
        params.append('m')
        args.append(('py', str(lo)))
    if hi is not None and not (lo == hi):
        params.append('n')
        args.append(('py', str(hi)))
    if lo == hi and lo is not None:
        body = ('rep', e, 'm', 'm')
    else:
        body = ('rep', e, 'm' if lo is not None else None, 'n' if hi is not None else None)
    if not params:
        return None
    return ('template', [('rule', name, params, body)], ('call', name, args, []))


def class_variant(idx, e, lo, hi):
    name = 'C%03d' % idx
    members = []
    if lo is not None:
        members.append(('let', 'm', ('py', str(lo))))
    if hi is not None:
        members.append(('field', 'n', ('py', str(hi))))
    if not members:
        return None
    members.append(('field', 'items', ('rep', e, 'm' if lo is not None else None, 'n' if hi is not None else None)))
    return ('class', [('class', name, None, members)], ('ref', name))


def nontrivial(ev):
    return bool(ev.get('bound_hit_max') or ev.get('bound_miss_min') or ev.get('dangling_sep'))


class C03(Check):
    id = 'C03'
    technique = 'PBT: exhaustive bounds x options x contexts matrix on all short inputs, reference interpreter + direct invariants'
    rule = ('cases = (rule, input); rules: {e{n}, e{m,n}, e{m,}, e{,n} : 0<=m<=n<=3} x 5 element kinds x '
            '{literal, let-bound, inline-python, template-parameter, class-field} bounds x 9 enclosing contexts, '
            'and Sep(e, s) x all 12 accepted option combinations (+ // and /? spellings) x 3 elements x 4 '
            'separators x 9 contexts; inputs: all strings of length<=4 (quick) / 5 (thorough) over {a,b,",",Z}. '
            'Non-trivial iff the reference trace shows the repetition stopped at its upper bound, missed its '
            'lower bound after consuming >=1 element, or met a dangling separator; distinct by (rule text, input).')
    assumptions = ['reference semantics of DESIGN.md Appendix A']
    budget_quick = 150
    budget_thorough = 1500
    exhaustive = True

    def all_rules(self):
        """The full matrix as a list of (tag, extra_rules, expr)."""
        items = []
        idx = 0
        for e in ELEMS:
            for lo, hi in bounds_forms():
                variants = list(rep_variants(e, lo, hi))
                idx += 1
                for v in (template_variant(idx, e, lo, hi), class_variant(idx, e, lo, hi)):
                    if v:
                        variants.append(v)
                for tag, extra, x in variants:
                    xnull = (lo in (0, None))
                    for ctag, c in contexts(x, xnull):
                        items.append(('rep/%s/%s' % (tag, ctag), extra, c))
        # bounded repetitions of elements that can match nothing (finite, so in the domain)
        for e in (('opt', ('lit', 'a')), ('rep', ('lit', 'a'), 0, None), ('left', ('opt', ('lit', 'a')), ('opt', ('lit', ',')))):
            for lo, hi in ((3, 3), (None, 3), (1, 2), (2, 3), (0, 1)):
                variants = list(rep_variants(e, lo, hi))
                for tag, extra, x in variants:
                    for ctag, c in contexts(x, True):
                        items.append(('rep/nullable-%s/%s' % (tag, ctag), extra, c))
        # bounds computed at parse time may be contradictory (m > n): the repetition must fail
        # (literal m > n is rejected by the constructor; this was F22 until it was fixed)
        for e in ELEMS[:3]:
            for lo, hi in ((1, 0), (2, 1), (3, 2), (2, 0), (3, 1)):
                variants = [('let-contradictory', [], ('let', 'm', ('py', str(lo)), ('let', 'n', ('py', str(hi)),
                                                                                     ('rep', e, 'm', 'n')))),
                            ('let-upper-only', [], ('let', 'n', ('py', str(hi)), ('rep', e, lo, 'n')))]
                idx += 1
                v = template_variant(idx, e, lo, hi)
                if v:
                    variants.append(v)
                for tag, extra, x in variants:
                    for ctag, c in contexts(x, False):
                        items.append(('rep/%s/%s' % (tag, ctag), extra, c))
        for e in ELEMS[:3] + [ELEMS[4]]:
            for s in SEPS:
                for keep, trailer, empty, req in itertools.product([False, True], repeat=4):
                    if req and not trailer:
                        continue
                    x = ('sep', e, s, keep, trailer, empty, req)
                    for ctag, c in contexts(x, empty):
                        items.append(('sep/%s' % ctag, [], c))
        return items

    def tasks(self, tier, seed):
        n = len(self.all_rules())
        L = 4 if tier == 'quick' else 5
        step = PER_GRAMMAR * 2
        tasks = [('matrix', lo, min(n, lo + step), L) for lo in range(0, n, step)]
        tasks.append(('invalid',))
        nh = 16 if tier == 'quick' else 64
        for s in range(nh):
            tasks.append(('hyp', seed * 1000003 + s, 40 if tier == 'quick' else 200))
        random.Random(seed).shuffle(tasks)
        return tasks

    def run_task(self, task):
        res = Result()
        if task[0] == 'matrix':
            _, lo, hi, L = task
            items = self.all_rules()[lo:hi]
            inputs = gens.all_inputs(ALPHA, L)
            for i in range(0, len(items), PER_GRAMMAR):
                if runner.time_left() < 0:
                    res.truncated = True
                    break
                batch = items[i:i + PER_GRAMMAR]
                rules = list(HELPERS)
                seen = set()
                entries = []
                for j, (tag, extra, x) in enumerate(batch):
                    for r in extra:
                        if r[1] not in seen:
                            seen.add(r[1])
                            rules.append(r)
                    rules.append(('rule', 'X%03d' % j, None, x))
                    entries.append(('X%03d' % j, tag))
                rules.append(('rule', 'start', None, ('ref', 'X000')))
                g = peg.G(rules)
                self.eval_grammar(res, g, entries, inputs)
        elif task[0] == 'invalid':
            for keep, empty in itertools.product([False, True], repeat=2):
                x = ('sep', ('lit', 'a'), ('lit', ','), keep, False, empty, True)
                g = peg.G([('rule', 'start', None, x)])
                mod, err = sut.compile_grammar(peg.render(g))
                res.evals += 1
                res.nontrivial.add(h64('invalid', keep, empty))
                if mod is not None:
                    res.mismatch({'g': peg.g_to_dict(g), 'entry': 'start', 'text': '', 'expect_reject': True})
        else:
            self.run_hyp(res, task)
        return res

    def eval_grammar(self, res, g, entries, inputs):
        rd = g.ruledict()

        def extra(name, t, exp, got, raw):
            r = rd[name]
            d = direct_info(r[3]) if r[0] == 'rule' else None
            if d and got[0] in ('OK', 'PARTIAL') and not direct_ok(d, got, raw, t):
                return 'direct-bounds'
            return None
        entries = [(n, tag.split('/')[-1]) for n, tag in entries]
        diff.eval_grammar(res, g, entries, inputs, nontrivial, 'c03', extra_check=extra)

    def run_hyp(self, res, task):
        from hypothesis import given, settings, seed, HealthCheck, Phase, strategies as st
        _, s, n = task
        inputs = gens.all_inputs(ALPHA, 3)

        @st.composite
        def nested(draw, depth):
            if depth == 0:
                return draw(st.sampled_from(ELEMS[:4] + [('lit', 'b'), ('lit', ',')]))
            k = draw(st.sampled_from(['rep', 'sep', 'seq', 'choice', 'opt', 'elem']))
            sub = lambda: draw(nested(depth - 1))
            nonnull = lambda e: e if not peg.nullable(e, {'KA': False}) else ('right', ('lit', 'a'), e)
            if k == 'elem':
                return draw(st.sampled_from(ELEMS))
            if k == 'rep':
                lo, hi = draw(st.sampled_from(bounds_forms()))
                return ('rep', nonnull(sub()), lo, hi)
            if k == 'sep':
                keep, trailer, empty, req = [draw(st.booleans()) for _ in range(4)]
                if req:
                    trailer = True
                e = sub()
                sp = sub()
                if peg.nullable(e, {'KA': False}) and peg.nullable(sp, {'KA': False}):
                    sp = nonnull(sp)
                if peg.nullable(('seq', [e, sp]), {'KA': False}):
                    e = nonnull(e)
                return ('sep', e, sp, keep, trailer, empty, req)
            if k == 'seq':
                return ('seq', [sub(), sub()])
            if k == 'choice':
                return ('choice', [sub(), sub()])
            return ('opt', sub())

        @seed(s)
        @settings(max_examples=n, database=None, deadline=None, phases=[Phase.generate],
                  suppress_health_check=list(HealthCheck), report_multiple_bugs=False)
        @given(st.lists(nested(3), min_size=8, max_size=8),
               st.lists(st.text(alphabet=ALPHA, min_size=4, max_size=8), min_size=6, max_size=6))
        def prop(exprs, longer):
            if runner.over_budget(res):     # (no draws inside this body)
                return
            rules = list(HELPERS) + [('rule', 'X%03d' % j, None, e) for j, e in enumerate(exprs)]
            rules.append(('rule', 'start', None, ('ref', 'X000')))
            g = peg.G(rules)
            self.eval_grammar(res, g, [('X%03d' % j, 'hyp') for j in range(len(exprs))], inputs + longer)
        try:
            prop()
        except runner.StopTask:
            pass

    def replay(self, case):
        g = peg.g_from_dict(case['g'])
        desc = peg.render(g)
        mod, err = sut.compile_grammar(desc)
        if case.get('expect_reject'):
            if mod is None:
                return None
            return {'bucket': 'invalid-sep-accepted', 'grammar': desc}
        rd = g.ruledict()

        def extra(name, t, exp, got, raw):
            r = rd[name]
            d = direct_info(r[3]) if r[0] == 'rule' else None
            if d and got[0] in ('OK', 'PARTIAL') and not direct_ok(d, got, raw, t):
                return 'direct-bounds'
            return None
        return diff.replay_case(case, extra_check=extra)

    def shrink(self, case, still_fails, deadline):
        if case.get('expect_reject'):
            return case

        def ok(c):
            g = peg.g_from_dict(c['g'])
            return c['entry'] in g.ruledict() and wellformed(g) and still_fails(c)
        return shrink.shrink_case(case, ok, deadline)

    def describe(self, case):
        g = peg.g_from_dict(case['g'])
        return {'grammar': peg.render(g), 'entry': case['entry'], 'input': repr(case.get('text'))}

    def selftest(self):
        from selftest import test_peg
        test_peg.run()


def direct_info(x):
    """For a rule that *is* a literal-bounded repetition: its bounds."""
    if x[0] == 'rep' and not isinstance(x[2], str) and not isinstance(x[3], str):
        return ('rep', x[2] or 0, x[3])
    if x[0] == 'sep' and x[1] == ('lit', 'a') and x[2] == ('lit', ','):
        return ('sep',) + tuple(x[3:])
    return None


def direct_ok(d, got, raw, t):
    """Reference-free invariants on the implementation's own output."""
    val = raw.partial_result if got[0] == 'PARTIAL' else raw
    end = got[2] if got[0] == 'PARTIAL' else len(t)
    if d[0] == 'rep':
        return d[1] <= len(val) and (d[2] is None or len(val) <= d[2])
    _, keep, trailer, empty, req = d
    # elements 'a', separator ',': the consumed text must be a(,a)* with an optional trailing ','
    consumed = t[:end]
    if consumed.endswith(',') and not trailer:
        return False
    nel = consumed.count('a')
    if consumed != ','.join(['a'] * nel) + (',' if consumed.endswith(',') else ''):
        return False
    want = (['a', ','] * nel)[:-1] + ([','] if consumed.endswith(',') and nel else []) if keep else ['a'] * nel
    return list(val) == want


if __name__ == '__main__':
    sys.exit(runner.main(C03()))
