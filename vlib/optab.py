"""Reference semantics for `operand between { rows }` (DESIGN.md 4/C02): a greedy scanner
P* O S* (I P* O S*)* followed by precedence climbing.  Deliberately *not* a shunting-yard
implementation.  Row index = binding power (0 binds tightest)."""
from .peg import Obj


def _longest(interp, cands, pos, env):
    """cands: [(row, [op exprs in choice order])] -> (row, value, end) of the farthest
    match, first row on ties; inside a row the first operator that matches wins."""
    best = None
    for row, ops in cands:
        for o in ops:
            r = interp.ev(o, pos, env)
            if r is not None:
                if best is None or r[1] > best[2]:
                    best = (row, r[0], r[1])
                break
    return best


def scan(interp, n, pos, env):
    """Returns None (no operand at all) or (tokens, end).  token = (kind, row, value, end)."""
    _, operand, rows = n
    pre = [(i, ops) for i, (a, ops) in enumerate(rows) if a == 'prefix' and ops]
    post = [(i, ops) for i, (a, ops) in enumerate(rows) if a == 'postfix' and ops]
    inf = [(i, ops) for i, (a, ops) in enumerate(rows) if a in ('left', 'right', 'infix') and ops]
    opd = [(-1, [operand])] + [(i, ops) for i, (a, ops) in enumerate(rows) if a == 'mixfix' and ops]
    toks = []
    end = pos
    p = pos
    first = True
    pending_infix = None
    while True:
        group = []
        if pending_infix is not None:
            group.append(pending_infix)
        while True:
            m = _longest(interp, pre, p, env)
            if m is None:
                break
            if m[2] == p:
                from .peg import RefError
                raise RefError('prefix operator matched without progress')
            group.append(('pre', m[0], m[1], m[2]))
            p = m[2]
        # operands: Longest(operand, mixfix rows...) ; each mixfix row is an ordered choice
        o = _longest(interp, opd, p, env)
        if o is None:
            if first:
                return None
            if group:
                interp.ev_('dangling_op')
            return toks, end
        group.append(('opd', None, o[1], o[2]))
        p = o[2]
        while True:
            m = _longest(interp, post, p, env)
            if m is None:
                break
            if m[2] == p:
                from .peg import RefError
                raise RefError('postfix operator matched without progress')
            group.append(('post', m[0], m[1], m[2]))
            p = m[2]
        toks.extend(group)
        end = p
        first = False
        m = _longest(interp, inf, p, env)
        if m is None:
            return toks, end
        pending_infix = ('inf', m[0], m[1], m[2])
        p = m[2]


class _Climber:
    def __init__(self, rows, toks):
        self.rows = rows
        self.toks = toks
        self.i = 0
        self.conflict_at = None

    def peek(self):
        if self.conflict_at is not None or self.i >= len(self.toks):
            return None
        return self.toks[self.i]

    def climb(self, bound):
        """An expression made of operators with row < bound."""
        t = self.peek()
        self.i += 1
        if t[0] == 'pre':
            right = self.climb(t[1])
            left = Obj('Prefix', [('operator', t[2]), ('right', right)])
        else:
            left = t[2]
        last_nonassoc = None
        while True:
            t = self.peek()
            if t is None:
                return left
            kind, row, v, _ = t
            if kind == 'post':
                if row < bound:
                    self.i += 1
                    left = Obj('Postfix', [('left', left), ('operator', v)])
                    last_nonassoc = None
                    continue
                return left
            if row >= bound:
                return left
            if last_nonassoc is not None and row == last_nonassoc:
                self.conflict_at = self.i
                return left
            assoc = self.rows[row][0]
            self.i += 1
            right = self.climb(row + 1 if assoc == 'right' else row)
            left = Obj('Infix', [('left', left), ('operator', v), ('right', right)])
            last_nonassoc = row if assoc == 'infix' else None


def ev_optable(interp, n, pos, env):
    sc = scan(interp, n, pos, env)
    if sc is None:
        return None
    toks, end = sc
    rows = n[2]
    c = _Climber(rows, toks)
    tree = c.climb(len(rows) + 1)
    nops = sum(1 for t in toks if t[0] != 'opd')
    if c.conflict_at is not None:
        k = c.conflict_at
        end = toks[k - 1][3]
        interp.ev_('nonassoc_conflict')
        nops = sum(1 for t in toks[:k] if t[0] != 'opd')
    if nops >= 2:
        used_rows = {t[1] for t in toks if t[0] != 'opd'}
        if len(used_rows) >= 2:
            interp.ev_('multi_row')
    return tree, end


def inorder(v):
    """In-order reading of an Infix/Prefix/Postfix tree (reference Obj or sourcer objects):
    list of leaf/operator values."""
    out = []
    stack = [v]
    while stack:
        x = stack.pop()
        name = x.cls if isinstance(x, Obj) else type(x).__name__
        if isinstance(x, Obj) or (hasattr(x, '_fields') and hasattr(x, '_metadata')):
            if name == 'Infix':
                stack.extend([x.right, _Leaf(x.operator), x.left])
                continue
            if name == 'Prefix':
                stack.extend([x.right, _Leaf(x.operator)])
                continue
            if name == 'Postfix':
                stack.extend([_Leaf(x.operator), x.left])
                continue
        out.append(x.v if isinstance(x, _Leaf) else x)
    return out


class _Leaf:
    def __init__(self, v):
        self.v = v
