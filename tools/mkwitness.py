#!/usr/bin/env python3
"""tools/mkwitness.py <check-id> <name> '<python literal of the case>'  -> replays/<id>-<name>.json
Runs the check's replay on the case and stores the (readable) case + current verdict."""
import sys, os, ast, importlib
sys.path.insert(0, os.path.dirname(os.path.dirname(os.path.abspath(__file__))))
from vlib import runner
cid, name, lit = sys.argv[1:4]
mod = importlib.import_module('checks.' + cid.lower())
check = getattr(mod, cid)()
case = ast.literal_eval(lit)
m = check.replay(case)
path = os.path.join(runner.REPLAY_DIR, '%s-%s.json' % (cid, name))
runner.save_case(path, check, case, m)
print(path, 'currently:', 'VIOLATES' if m else 'holds', m or '')
