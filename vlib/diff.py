"""Shared differential driver: one compiled grammar, many entries x inputs, compared with the
reference interpreter.  Handles hangs economically (a hanging entry is recorded once and
abandoned) and builds replayable cases."""
from . import peg, sut
from .runner import h64

QUICK_BUDGET = 2.0      # seconds per parse of a short input (typical: 30 us)
CONFIRM_BUDGET = 10.0   # a hang is confirmed once with this budget before it is recorded
_confirmed_hangs = 0


def reachable_subgrammar(g, name):
    rd = g.ruledict()
    seen, todo = [], [name]
    if g.start_name():
        todo.append(g.start_name()) if False else None
    while todo:
        n = todo.pop()
        if n in seen or n not in rd:
            continue
        seen.append(n)
        r = rd[n]
        exprs = list(peg.rule_exprs(r))
        if r[0] == 'class':
            exprs += [m[2] for m in r[3] if m[0] == 'requires']
        for e in exprs:
            for x in peg.walk(e):
                if x[0] == 'ref':
                    todo.append(x[1])
                if x[0] == 'call':
                    todo.append(x[1])
    rules = [r for r in g.rules if r[1] in seen]
    return g.copy(rules=rules)


def run_confirmed(mod, name, t, fn=None, pos=0, fullparse=True, raw=False):
    """sut.run with the two-stage watchdog."""
    global _confirmed_hangs
    out = sut.run(mod, name, t, pos, fullparse, budget=QUICK_BUDGET, raw=raw, fn=fn)
    o = out[0] if raw else out
    if o[0] == 'HANG' and _confirmed_hangs < 2:
        # confirm with a larger budget; after two confirmed hangs in this process the
        # violation is established and further hangs are only paid the small budget
        out = sut.run(mod, name, t, pos, fullparse, budget=CONFIRM_BUDGET, raw=raw, fn=fn)
        o = out[0] if raw else out
        if o[0] == 'HANG':
            _confirmed_hangs += 1
    return out


def make_case(g, name, t, **extra):
    c = {'g': peg.g_to_dict(reachable_subgrammar(g, name)), 'entry': name, 'text': t}
    c.update(extra)
    return c


def compile_via(g, style, via):
    """The module to parse through.  via None: the description as it is; 'named': with a
    `grammar <name>` header (every generated function then threads a context argument);
    'derived': through a grammar that extends the named one and overrides nothing.  What a
    description means does not depend on which of the three it is parsed through."""
    if via is None or g.header or g.extends:
        return sut.compile_grammar(peg.render(g, style))
    name = sut.fresh_name('vfvia_')
    try:
        mod, err = sut.compile_grammar(peg.render(g.copy(header=name), style))
        if mod is None or via == 'named':
            return mod, err
        child = sut.fresh_name('vfviad_')
        try:
            return sut.compile_grammar('grammar %s extends %s\nExtraRuleOfDerived_ = "zz"\n' % (child, name))
        finally:
            sut.forget(child)
    finally:
        sut.forget(name)


def pick_via(desc):
    return (None, None, 'named', 'derived')[h64('via', desc) % 4]


def eval_grammar(res, g, entries, inputs, nontrivial, tag='', pyglobals=None, extra_check=None,
                 keep_whole_grammar=False, style=None, max_hangs=2, key_whole=False):
    """Compile g once; for each entry (name or (name, label)) and input compare sourcer with
    the reference.  `nontrivial(events) -> bool`.  `extra_check(name, t, exp, got, raw) ->
    None | str` adds reference-free invariants."""
    desc = peg.render(g, style)
    via = pick_via(desc)
    if g.header or g.extends:
        via = None
    res.hist['via_%s' % via] += 1
    mod, err = compile_via(g, style, via)
    if mod is None:
        res.evals += 1
        res.hist['compile_' + err[0]] += 1
        first = entries[0][0] if isinstance(entries[0], tuple) else entries[0]
        res.mismatch({'g': peg.g_to_dict(g), 'entry': first, 'text': inputs[0], 'why': 'compile', 'via': via})
        return None
    rd = g.ruledict()
    hangs = 0
    steplimits = 0
    for ent in entries:
        name, label = ent if isinstance(ent, tuple) else (ent, '')
        fn = getattr(mod, name).parse
        key = None
        for t in inputs:
            it = peg.Interp(g, t, pyglobals=pyglobals)
            try:
                r = it.run_rule(name)
            except peg.StepLimit:
                res.hist['ref_steplimit'] += 1
                steplimits += 1
                if steplimits >= 4:
                    # the naive reference is exponential on this grammar: give up on it
                    res.hist['grammar_abandoned_reference_too_slow'] += 1
                    return mod
                continue
            except peg.RefError as e:
                res.hist['ref_outside_domain'] += 1
                continue
            except RecursionError:
                res.hist['ref_recursion'] += 1
                continue
            exp = sut.expected(r, t)
            got, raw = run_confirmed(mod, name, t, fn=fn, raw=True)
            res.evals += 1
            res.hist['out_' + exp[0]] += 1
            bad = not sut.agrees(exp, got)
            if not bad and extra_check is not None:
                why = extra_check(name, t, exp, got, raw)
                if why:
                    bad = True
            if nontrivial(it.events):
                if key is None:
                    key = desc + '@' + name if key_whole else peg.render_rule(rd[name], g.mode)
                res.nontrivial.add(h64(tag, key, t))
                res.hist['nontrivial'] += 1
                if label:
                    res.hist['nt_' + label] += 1
                if len(res.samples) < 2 and len(t) >= 2:
                    res.sample({'rule': key, 'input': repr(t), 'expected': list(exp)[:3],
                                'events': dict(it.events)})
            if bad:
                case = make_case(g, name, t, via=via)
                if keep_whole_grammar:
                    case = {'g': peg.g_to_dict(g), 'entry': name, 'text': t, 'via': via}
                elif len(res.mismatches) < 40:
                    # the reduced grammar (rules reachable from the entry) must still show the mismatch;
                    # otherwise rules interfere across the module and the whole grammar is the case
                    try:
                        if replay_case(case, pyglobals=pyglobals, extra_check=extra_check, style=style) is None:
                            case = {'g': peg.g_to_dict(g), 'entry': name, 'text': t, 'via': via}
                            res.hist['mismatch_needs_whole_grammar'] += 1
                    except Exception:
                        pass
                res.mismatch(case)
                if got[0] == 'HANG':
                    hangs += 1
                    res.hist['hang'] += 1
                    break          # do not pay the watchdog for every other input of this entry
        if hangs >= max_hangs or (hangs and _confirmed_hangs >= 2):
            res.hist['grammar_abandoned_after_hangs'] += 1
            break
    return mod


def replay_case(case, pyglobals=None, extra_check=None, style=None):
    """Generic replay for cases made by make_case."""
    g = peg.g_from_dict(case['g'])
    desc = peg.render(g, style)
    via = case.get('via')
    mod, err = compile_via(g, style, via)
    if via:
        desc = '# parsed through: %s\n' % via + desc
    t = case['text']
    if mod is None:
        return {'bucket': 'compile:%s' % (err[1] if len(err) > 1 else err[0]), 'got': list(err),
                'grammar': desc}
    try:
        r = peg.Interp(g, t, pyglobals=pyglobals).run_rule(case['entry'])
    except (peg.StepLimit, peg.RefError, KeyError, RecursionError):
        return None
    exp = sut.expected(r, t)
    got, raw = run_confirmed(mod, case['entry'], t, raw=True)
    if sut.agrees(exp, got):
        if extra_check is not None:
            why = extra_check(case['entry'], t, exp, got, raw)
            if why:
                return {'bucket': 'invariant:' + why, 'got': list(got), 'grammar': desc,
                        'entry': case['entry'], 'input': repr(t)}
        return None
    b = '%s->%s' % (exp[0], got[0] if got[0] != 'EXC' else 'EXC:' + got[1])
    return {'bucket': b, 'expected': list(exp), 'got': list(got), 'grammar': desc,
            'entry': case['entry'], 'input': repr(t)}


def wellformed(g):
    """Every repetition/Skip body non-nullable, every ref defined, no left recursion."""
    rd = g.ruledict()
    rn = peg.rule_nullability(g)
    for r in g.rules:
        for e in peg.rule_exprs(r):
            for x in peg.walk(e):
                if x[0] == 'rep' and peg.nullable(x[1], rn) and (x[3] is None or peg.uses_backtrack(x[1], rn)):
                    return False      # (bounded repetitions may repeat something that matches nothing)
                if x[0] == 'skip' and any(peg.nullable(c, rn) for c in x[1]):
                    return False
                if x[0] == 'sep' and peg.nullable(('seq', [x[1], x[2]]), rn):
                    return False
                if x[0] == 'ref' and x[1] not in rd and not _is_local(r, x[1]):
                    return False
                if x[0] in ('expect', 'expectnot', 'skip', 'longest') and any(c[0] == 'py' for c in peg.children(x)):
                    return False    # constructor-only forms cannot take bare inline Python
                if x[0] == 'call' and x[1] not in rd:
                    return False
    for _, e in g.ignores:
        if peg.nullable(e, rn):
            return False

    def first_refs(n):
        k = n[0]
        if k in ('ref', 'call'):
            out = {n[1]}
            if k == 'call':
                for c in peg.children(n):
                    out |= first_refs(c)
            return out
        if k == 'seq':
            out = set()
            for c in n[1]:
                out |= first_refs(c)
                if not peg.nullable(c, rn):
                    break
            return out
        if k in ('right', 'left', 'sep', 'where', 'apply', 'applyl'):
            out = first_refs(n[1])
            if peg.nullable(n[1], rn):
                out |= first_refs(n[2])
            return out
        if k == 'let':
            out = first_refs(n[2])
            if peg.nullable(n[2], rn):
                out |= first_refs(n[3])
            return out
        out = set()
        for c in peg.children(n):
            out |= first_refs(c)
        return out
    fr = {}
    for r in g.rules:
        s = set()
        if r[0] == 'rule':
            s |= first_refs(r[3])
        else:
            for m in r[3]:
                if m[0] == 'requires':
                    continue
                s |= first_refs(m[2])
                if not peg.nullable(m[2], rn):
                    break
        fr[r[1]] = s
    for name in fr:
        seen, todo = set(), list(fr[name])
        while todo:
            x = todo.pop()
            if x == name:
                return False
            if x in seen:
                continue
            seen.add(x)
            todo.extend(fr.get(x, ()))
    return True


def _is_local(r, name):
    if r[2] and name in r[2]:
        return True
    if r[0] == 'class' and any(m[1] == name for m in r[3]):
        return True
    for e in peg.rule_exprs(r):
        for x in peg.walk(e):
            if x[0] == 'let' and x[1] == name:
                return True
    return False
