"""Generators for grammars with bound names, classes, `where`, `|>`, `<|`, data-dependent
counts and parameterised rules/classes (C05, C06, C08, C10, C11, C19, C20 build on it).

Scope discipline: lexical.  Names in scope may be shadowed by inner lets anywhere, and the
outer value is read again afterwards (this was excluded while finding F24 - an inner binding
overwriting the outer one - was open; it has been repaired, together with F30: a let's name is
not bound inside its own binding expression)."""
from hypothesis import strategies as st
from . import peg

ALPHA = 'ab12Z'

BASE_RULES = [
    ('rule', 'A', None, ('lit', 'a')),
    ('rule', 'B', None, ('rx', 'b+')),
    ('rule', 'W', None, ('rx', '[ab]+')),
    ('rule', 'D', None, ('apply', ('rx', '[0-3]'), ('py', 'int'))),
]
BASE_NULL = {'A': False, 'B': False, 'W': False, 'D': False}

# fixed template library: (rule, [param kinds])   kinds: s=str value, i=int value, p=parser, v=any value
LIB = [
    (('rule', 'Tsame', ['x'], ('where', ('ref', 'W'), ('py', 'lambda v: v == x'))), ['s']),
    (('rule', 'Tlen', ['x'], ('where', ('ref', 'W'), ('py', 'lambda v: len(v) > len(x)'))), ['s']),
    (('rule', 'Tcount', ['n'], ('rep', ('lit', 'a'), 'n', 'n')), ['i']),
    (('rule', 'Tpair', ['p'], ('seq', [('ref', 'p'), ('ref', 'p')])), ['p']),
    (('rule', 'Tval', ['v'], ('py', '(v, v)')), ['v']),
    (('rule', 'Tsep', ['p', 'q'], ('sep', ('ref', 'p'), ('ref', 'q'), False, False, True, False)), ['P', 'p']),
    (('rule', 'Tkw', ['p', 'v'], ('seq', [('ref', 'p'), ('py', 'v')])), ['p', 'v']),
    (('rule', 'Trec', ['d'], ('choice', [('left', ('right', ('lit', '1'), ('call', 'Trec', [('py', 'd+1')], [])), ('lit', '2')),
                                         ('py', 'd')])), ['i']),
    (('rule', 'Tpass', ['p'], ('call', 'Tpair', [('left', ('ref', 'p'), ('opt', ('lit', 'b')))], [])), ['p']),
    (('rule', 'Topt', ['p', 'x'], ('seq', [('opt', ('ref', 'p')), ('where', ('ref', 'W'), ('py', 'lambda v: v != x'))])), ['p', 's']),
    (('rule', 'Tcap2', ['p', 'q'], ('call', 'Tpair', [('seq', [('ref', 'p'), ('opt', ('ref', 'q'))])], [])), ['p', 'p']),
    (('rule', 'Tcap3', ['p', 'x'], ('call', 'Tpair', [('call', 'Tkw', [('ref', 'p'), ('ref', 'x')], [])], [])), ['p', 'v']),
    (('rule', 'Tshadow', ['W'], ('call', 'Tpair', [('left', ('ref', 'W'), ('opt', ('lit', 'b')))], [])), ['p']),
    # uses its parser parameter on one path only: an argument is parsed (and ITS arguments are evaluated)
    # where and when the body gets there
    (('rule', 'Tguard', ['v', 'p'], ('choice', [('right', ('where', ('py', 'v'), ('py', 'bool')), ('ref', 'p')), ('py', '"skipped"')])), ['v', 'p']),
    # keeps state in a value argument
    (('rule', 'Tacc', ['p', 'acc'], ('right', ('apply', ('ref', 'p'), ('py', 'acc.append')), ('py', 'list(acc)'))), ['p', 'L']),
    (('class', 'CP', ['p', 'n'], [('field', 'first', ('ref', 'p')), ('field', 'rest', ('rep', ('lit', 'b'), None, 'n'))]), ['p', 'i']),
    (('class', 'CN', ['n'], [('field', 'items', ('rep', ('lit', 'a'), 'n', 'n')), ('field', 'n2', ('py', 'n * 2'))]), ['i']),
    (('class', 'CV', ['x'], [('field', 'w', ('ref', 'W')), ('requires', None, ('py', 'w != x')), ('field', 'tag', ('py', 'x'))]), ['s']),
]
LIB_NULL = {'Tsame': False, 'Tlen': False, 'Tcount': True, 'Tpair': True, 'Tval': True, 'Tsep': True,
            'Tkw': True, 'Trec': True, 'Tpass': True, 'Topt': True, 'CP': True, 'CV': False, 'Tcap2': True,
            'Tcap3': True, 'CN': True, 'Tshadow': True, 'Tguard': True, 'Tacc': True}

NAMES = ['x', 'y', 'z', 'n', 'm', 'k']

STR_TOKS = [('lit', 'a'), ('lit', 'b'), ('lit', 'ab'), ('rx', 'a+'), ('rx', '[ab]'), ('ref', 'A'),
            ('ref', 'B'), ('ref', 'W'), ('ci', 'A'), ('lit', '1')]


class Ctx:
    def __init__(self, templates, classes, rules_null, allow_calls=True):
        self.templates = templates        # [(name, [kinds])]
        self.classes = classes            # parameterless class names usable as references
        self.rules_null = rules_null
        self.allow_calls = allow_calls
        self.mode = 'text'
        self.later = []                   # parameterless rules defined later (no left recursion)
        self.params = {}


def _fresh(draw, scope):
    pool = [n for n in NAMES if n not in scope]
    if not pool:
        return None
    # mostly the first free name, so that alternatives, iterations and sibling rules
    # reuse the same names for different values
    if draw(st.integers(0, 4)) > 0:
        return pool[0]
    return draw(st.sampled_from(pool))


def _names(scope, kinds):
    return [n for n, k in scope.items() if k in kinds]


@st.composite
def str_tok(draw, scope):
    pars = _names(scope, 'pP')
    if pars and draw(st.integers(0, 3)) == 0:
        return ('ref', draw(st.sampled_from(pars)))
    return draw(st.sampled_from(STR_TOKS))


@st.composite
def predicate(draw, scope):
    """Source of a predicate over a str value v."""
    ss = _names(scope, 's')
    anyv = _names(scope, 'sv')
    # (a predicate's answer counts by its truth value: 0, '', [] and None say no, anything else says yes)
    opts = ['lambda v: v != "b"', 'lambda v: len(v) > 1', 'lambda v: True', 'lambda v: len(v) - 1', 'lambda v: v[1:]',
            'lambda v: [c for c in v if c == "a"]', 'lambda v: None', 'lambda v: (0,)']
    for x in ss:
        opts += ['lambda v: v == %s' % x, 'lambda v: len(v) > len(%s)' % x, 'lambda v: v != %s' % x,
                 'lambda v: v == %s' % x]
    for x in anyv:
        opts += ['lambda v: v != %s' % x]
    for n in _names(scope, 'i'):
        opts += ['lambda v: len(v) == %s' % n, 'lambda v: len(v) > %s' % n]
    return draw(st.sampled_from(opts))


@st.composite
def pyvalue(draw, scope):
    vals = _names(scope, 'siv')
    opts = ['1', '"q"', 'None', '[]']
    for x in vals:
        opts += [x, '(%s, 0)' % x, '[%s]' % x, x]
    for x in _names(scope, 's'):
        opts += ['len(%s)' % x, '%s + "!"' % x]
    for n in _names(scope, 'i'):
        opts += ['%s + 1' % n]
    if len(vals) >= 2:
        a, b = draw(st.sampled_from(vals)), draw(st.sampled_from(vals))
        opts += ['(%s, %s)' % (a, b)] * 2
    return draw(st.sampled_from(opts))


@st.composite
def argument(draw, kind, scope, ctx, depth, pyscope=None):
    """A call-site argument of the given kind, mentioning call-site names where possible.
    `pyscope`: names that inline Python may mention (inside a compound argument only names
    bound inside that argument: known finding F11)."""
    pyscope = scope if pyscope is None else pyscope
    if kind == 's':
        opts = [('py', '"ab"'), ('py', '"b"'), ('lit', 'ab'), ('lit', 'a')]
        for x in _names(scope, 's'):
            opts += [('ref', x), ('ref', x)]
        for x in _names(pyscope, 's'):
            opts += [('py', x), ('py', '%s + "b"' % x)]
        return draw(st.sampled_from(opts))
    if kind == 'i':
        opts = [('py', '0'), ('py', '1'), ('py', '2')]
        for n in _names(scope, 'i'):
            opts += [('ref', n), ('ref', n)]
        for n in _names(pyscope, 'i'):
            opts += [('py', '%s + 1' % n), ('py', n)]
        for x in _names(pyscope, 's'):
            opts += [('py', 'len(%s)' % x)]
        return draw(st.sampled_from(opts))
    if kind == 'v':
        # (values that are == but of different types are different arguments: F12, fixed)
        opts = [('py', '1'), ('py', '"q"'), ('py', 'None'), ('py', '[1, 2]'), ('py', '{"k": 1}'), ('lit', 'a'),
                ('py', 'True'), ('py', '1.0'), ('py', '[1.0, 2]'), ('py', '{"k": True}'), ('py', '0'), ('py', 'False')]
        for x in _names(scope, 'siv'):
            opts += [('ref', x), ('ref', x)]
        for x in _names(pyscope, 'siv'):
            opts += [('py', '(%s, 1)' % x), ('py', '[%s]' % x)]
        return draw(st.sampled_from(opts))
    if kind == 'L':
        # a list the template body adds to: every instantiation gets the list ITS argument expression made
        return draw(st.sampled_from([('py', '[]'), ('py', '[]'), ('py', '[0]'), ('py', 'list()'), ('py', '[[]][0]')]))
    if kind == 'P':
        # a parser that cannot succeed without consuming (it is repeated inside the template)
        return _nonnull(draw(argument('p', scope, ctx, depth, pyscope)), ctx)
    # parser
    choice = draw(st.integers(0, 9))
    pars = _names(scope, 'p')
    if choice <= 1:
        if ctx.mode == 'bytes' and draw(st.booleans()):
            return ('byte', draw(st.sampled_from([0x61, 0x62])))
        return draw(st.sampled_from([('lit', 'a'), ('lit', 'b'), ('lit', 'ab')]))
    if choice <= 3:
        return draw(st.sampled_from([('ref', 'A'), ('ref', 'B'), ('ref', 'W')] + [('ref', c) for c in ctx.classes]))
    if choice == 4 and pars:
        return ('ref', draw(st.sampled_from(pars)))
    # compound, possibly capturing names of the call site - also from inline Python and symbolic
    # counts (that was known finding F11 until it was fixed)
    e = draw(rexpr(min(depth, 2), scope, ctx, tail=False))
    if e[0] == 'py':
        e = ('seq', [e])      # a bare inline-Python argument is a value, not a parser
    return e


@st.composite
def call(draw, scope, ctx, depth, pyscope=None):
    name, kinds = draw(st.sampled_from(ctx.templates))
    args = [draw(argument(k, scope, ctx, depth, pyscope)) for k in kinds]
    rule = None
    # keyword arguments: bind the last 0..n arguments by name (needs parameter names)
    params = ctx.params[name]
    nkw = draw(st.sampled_from([0, 0, 0, 1, len(kinds)]))
    nkw = min(nkw, len(kinds))
    pos = args[:len(args) - nkw]
    kws = list(zip(params[len(args) - nkw:], args[len(args) - nkw:]))
    if nkw and draw(st.booleans()):
        kws = list(reversed(kws))
    return ('call', name, pos, kws)


def _nonnull(e, ctx):
    if not peg.nullable(e, ctx.rules_null):
        return e
    if e[0] == 'ref':
        return ('left', ('lit', 'a'), e)
    return ('right', ('lit', 'a'), e)


@st.composite
def rexpr(draw, depth, scope, ctx, tail=True, pyscope=None):
    """A rich expression.  `scope`: name -> kind (s,i,v,p).  `tail`: nothing of the enclosing
    body is evaluated after this expression, so rebinding a name in scope is allowed here."""
    if pyscope is None:
        pyscope = scope
    in_arg = pyscope is not scope
    sub = lambda sc=scope, t=False, d=depth - 1: draw(rexpr(d, sc, ctx, tail=t, pyscope=(pyscope if in_arg else None)))
    if depth <= 0 or draw(st.integers(0, 9)) < 2:
        k = draw(st.integers(0, 9))
        if k <= 5:
            return draw(str_tok(scope))
        if k == 6:
            return ('ref', 'D')
        if k == 7 and (ctx.classes or ctx.later):
            return ('ref', draw(st.sampled_from(ctx.classes + ctx.later)))
        if k == 8 and (pyscope or draw(st.booleans())):
            return ('py', draw(pyvalue(pyscope)))
        return draw(str_tok(scope))
    kinds = ['let', 'let', 'where', 'where', 'apply', 'applyl', 'count', 'seq', 'seq', 'choice', 'choice',
             'right', 'left', 'opt', 'star', 'plus', 'expect', 'expectnot', 'pyseq']
    if ctx.allow_calls and ctx.templates:
        kinds += ['call', 'call', 'call']
    k = draw(st.sampled_from(kinds))
    if k == 'let':
        # shadowing anywhere - the outer value is read again afterwards (known finding F24 until fixed)
        shadow = scope and draw(st.integers(0, 3 if tail else 5)) == 0
        if shadow:
            name = draw(st.sampled_from(sorted(scope)))
        else:
            name = _fresh(draw, scope)
        if name is None:
            return draw(str_tok(scope))
        how = draw(st.integers(0, 5))
        if how <= 2:
            a, kind = draw(str_tok(scope)), 's'
        elif how == 3:
            a, kind = ('ref', 'D'), 'i'
        elif how == 4:
            a, kind = ('rep', draw(str_tok(scope)), 0, None), 'v'
        else:
            a, kind = sub(), 'v'
        sc2 = dict(scope)
        sc2[name] = kind
        ps2 = None
        if in_arg:
            ps2 = dict(pyscope)
            ps2[name] = kind
        return ('let', name, a, draw(rexpr(depth - 1, sc2, ctx, tail=tail, pyscope=ps2)))
    if k == 'where':
        return ('where', draw(str_tok(scope)), ('py', draw(predicate(pyscope))))
    if k in ('apply', 'applyl'):
        vals = _names(pyscope, 'siv')
        # (results that are falsy are results like any other)
        fs = ['lambda v: [v]', 'lambda v: (v, 1)', 'lambda v: v', 'lambda v: 0', 'lambda v: ""', 'lambda v: []', 'lambda v: None',
              'lambda v: False']
        for x in vals:
            fs += ['lambda v: (v, %s)' % x] * 2
        f = ('py', draw(st.sampled_from(fs)))
        e = sub()
        if k == 'applyl' and draw(st.integers(0, 2)) == 0:
            # the function itself is PARSED (it consumes input, first), then the argument: f <| a is f(a)
            tok = draw(st.sampled_from([('lit', 'a'), ('rx', '[ab]'), ('lit', '1'), ('ref', 'D')]))
            f = ('apply', tok, ('py', 'lambda d: lambda x: (d, x)'))
        return ('apply', e, f) if k == 'apply' else ('applyl', f, e)
    if k == 'count':
        ints = _names(pyscope, 'i')
        tok = draw(st.sampled_from([('lit', 'a'), ('rx', '[ab]'), ('seq', [('lit', 'a'), ('lit', 'b')]), ('ref', 'A')]))
        if not ints:
            n = _fresh(draw, scope)
            if n is None:
                return ('rep', tok, 1, 2)
            lo, hi = draw(st.sampled_from([(n, n), (None, n), ('`%s+1`' % n, '`%s+1`' % n), (n, None), (0, n), (n, '`%s+1`' % n)]))
            return ('let', n, ('ref', 'D'), ('rep', tok, lo, hi))
        n = draw(st.sampled_from(ints))
        lo, hi = draw(st.sampled_from([(n, n), (None, n), ('`%s+1`' % n, '`%s+1`' % n), (n, None), (0, n), (n, '`%s+1`' % n)]))
        return ('rep', tok, lo, hi)
    if k == 'seq':
        n = draw(st.integers(1, 3))
        return ('seq', [sub() for _ in range(n)])
    if k == 'pyseq':
        return ('seq', [sub(), ('py', draw(pyvalue(pyscope)))])
    if k == 'choice':
        n = draw(st.integers(2, 3))
        # alternatives are tails iff the choice is: nothing after an alternative reads outer names
        return ('choice', [sub() for _ in range(n)])
    if k in ('right', 'left'):
        return (k, sub(), sub())
    if k == 'opt':
        return ('opt', sub())
    if k == 'star':
        return ('rep', _nonnull(sub(), ctx), 0, None)
    if k == 'plus':
        return ('rep', _nonnull(sub(), ctx), 1, None)
    if k in ('expect', 'expectnot'):
        e = sub()
        if e[0] == 'py':
            e = ('seq', [e])    # Expect(`x`) would read the inline Python as an option value
        return (k, e)
    if k == 'call':
        return draw(call(scope, ctx, depth - 1, pyscope if in_arg else None))
    raise ValueError(k)


@st.composite
def gen_class(draw, name, params, kinds, ctx, depth):
    scope = dict(zip(params or [], kinds or []))
    members = []
    n = draw(st.integers(1, 4))
    for i in range(n):
        mk = draw(st.sampled_from(['field', 'field', 'field', 'let', 'pass', 'requires']))
        if mk == 'requires':
            ss = _names(scope, 'siv')
            opts = ['True', '1 == 1']
            for x in _names(scope, 's'):
                opts += ['len(%s) > 0' % x, '%s != "b"' % x, '%s != "b"' % x]
            for x in _names(scope, 'i'):
                opts += ['%s < 3' % x, '%s != 1' % x]
            if len(ss) >= 2:
                opts += ['%s != %s' % (ss[0], ss[-1])] * 2
            members.append(('requires', None, ('py', draw(st.sampled_from(opts)))))
            continue
        how = draw(st.integers(0, 4))
        if how <= 1:
            e, kind = draw(str_tok(scope)), 's'
        elif how == 2:
            e, kind = ('ref', 'D'), 'i'
        else:
            e, kind = draw(rexpr(depth, scope, ctx, tail=False)), 'v'
        if mk == 'pass':
            members.append(('pass', None, e))
            continue
        mname = _fresh(draw, scope)
        if mname is None:
            members.append(('pass', None, e))
            continue
        members.append((mk, mname, e))
        scope[mname] = kind
    if not any(m[0] == 'field' for m in members):
        members.append(('field', 'last', draw(str_tok(scope))))
    return ('class', name, params, members)


@st.composite
def rich_grammar(draw, nrules=4, depth=3, use_lib=True, gen_templates=True, mode='text'):
    """A grammar with BASE_RULES, the template library, 0-2 generated templates, 1-2 generated
    classes, `nrules` generated rules R0.. and start = R0."""
    rules = list(BASE_RULES)
    rules_null = dict(BASE_NULL)
    templates = []
    params = {}
    if use_lib:
        for r, kinds in LIB:
            rules.append(r)
            templates.append((r[1], kinds))
            params[r[1]] = r[2]
        rules_null.update(LIB_NULL)
    ctx = Ctx(templates, [], rules_null)
    ctx.params = params
    ctx.mode = mode
    # generated classes (parameterless), usable as references
    ncls = draw(st.integers(1, 2))
    for i in range(ncls):
        name = 'K%d' % i
        c = draw(gen_class(name, None, None, ctx, depth - 1))
        rules.append(c)
        rules_null[name] = all(peg.nullable(m[2], rules_null) for m in c[3] if m[0] != 'requires')
        ctx.classes.append(name)
    # generated templates
    if gen_templates:
        for i in range(draw(st.integers(0, 2))):
            name = 'G%d' % i
            nk = draw(st.integers(1, 3))
            kinds = [draw(st.sampled_from(['s', 'i', 'p', 'p', 'v'])) for _ in range(nk)]
            ps = ['p%d' % j if k in 'pP' else 'a%d' % j for j, k in enumerate(kinds)]
            scope = dict(zip(ps, kinds))
            if draw(st.integers(0, 3)) == 0:
                body_rule = draw(gen_class(name, ps, kinds, ctx, depth - 1))
            else:
                body_rule = ('rule', name, ps, draw(rexpr(depth - 1, scope, ctx, tail=True)))
            rules.append(body_rule)
            rules_null[name] = True
            templates.append((name, kinds))
            params[name] = ps
    names = ['R%d' % i for i in range(nrules)]
    gen = []
    for i in reversed(range(nrules)):
        ctx.later = names[i + 1:]
        e = draw(rexpr(depth, {}, ctx, tail=True))
        gen.append(('rule', names[i], None, e))
        rules_null[names[i]] = peg.nullable(e, rules_null)
    rules.extend(reversed(gen))
    if use_lib:
        for i in range(draw(st.integers(1, 3))):
            rules.extend(draw(family_rules(i, ctx)))
    rules.append(('rule', 'start', None, ('ref', 'R0')))
    return peg.G(rules, mode=mode)


@st.composite
def family_rules(draw, idx, ctx):
    """Rules built to rebind one name several times within one parse (DESIGN 4/C05):
    abandoned alternative, successive iterations, recursive and sibling invocations."""
    t = lambda: draw(st.sampled_from([('lit', 'a'), ('lit', 'b'), ('rx', 'a+'), ('rx', '[ab]'), ('ref', 'W'),
                                      ('lit', 'ab'), ('ref', 'B')]))
    use = lambda x: draw(st.sampled_from([('py', x), ('py', '(%s, 1)' % x),
                                          ('where', ('ref', 'W'), ('py', 'lambda v: v == %s' % x)),
                                          ('where', ('ref', 'W'), ('py', 'lambda v: len(v) >= len(%s)' % x)),
                                          ('call', 'Tsame', [('ref', x)], []),
                                          ('call', 'Tval', [('ref', x)], []),
                                          ('apply', ('rx', '[ab]'), ('py', 'lambda v: (v, %s)' % x))]))
    name = 'F%d' % idx
    fam = draw(st.integers(0, 19))
    x = draw(st.sampled_from(['x', 'y', 'n']))
    if fam == 19:
        # the same accumulating template instantiated repeatedly: in a repetition, in two alternatives, and - the
        # module being used for many inputs - in one parse after another
        lit = draw(st.sampled_from(['[]', '[]', '[0]', '{}']))
        if lit == '{}':
            c = lambda: ('call', 'Tkw', [('lit', 'a')], [('v', ('py', '{}'))])
            return [('rule', name, None, ('seq', [('apply', ('rep', c(), 0, 3), ('py', 'lambda rows: [r[1].setdefault(len(r[1]), i) for i, r in enumerate(rows)]')),
                                                   ('opt', ('ref', 'W'))]))]
        c = lambda: ('call', 'Tacc', [draw(st.sampled_from([('rx', '[ab]'), ('lit', 'a'), ('ref', 'A')]))], [('acc', ('py', lit))])
        return [('rule', name, None, ('choice', [('seq', [('rep', c(), 1, 3), ('lit', '2')]), ('seq', [c(), ('opt', c())])]))]
    if fam == 18:
        # a nested call whose value argument can only be evaluated on the path that uses it (it
        # would raise on the other one): arguments of an argument are evaluated when the argument is used
        kind = draw(st.integers(0, 3))
        if kind <= 1:
            bind, guard, inner = ('opt', ('ref', 'D')), '%s is not None' % x, ('call', 'Tval', [('py', '%s + 1' % x)], [])
            if kind == 1:
                inner = ('call', 'CN', [('py', '%s + 1' % x)], [])
        elif kind == 2:
            bind, guard, inner = ('opt', ('ref', 'W')), '%s is not None' % x, ('call', 'Tsame', [('py', '%s + "b"' % x)], [])
        else:
            bind, guard, inner = ('rep', ('lit', 'a'), 0, 2), 'len(%s) > 0' % x, ('call', 'Tkw', [('lit', 'b')], [('v', ('py', '%s[-1]' % x))])
        if draw(st.booleans()):
            call = ('call', 'Tguard', [('py', guard), inner], [])
        else:
            call = ('call', 'Tguard', [], [('p', inner), ('v', ('py', guard))])
        return [('rule', name, None, ('let', x, bind, ('seq', [call, ('opt', ('ref', 'W'))])))]
    if fam == 17:
        # calls at one position that differ ONLY in a keyword argument (value or parser)
        tok = draw(st.sampled_from([('lit', 'a'), ('rx', '[ab]'), ('ref', 'W')]))
        v1, v2 = draw(st.sampled_from([(('py', '1'), ('py', '2')), (('py', '"q"'), ('py', '"r"')), (('py', '[1]'), ('py', '[2]')),
                                       (('py', '0'), ('py', 'False'))]))
        how = draw(st.integers(0, 2))
        if how == 0:
            c1 = ('call', 'Tkw', [tok], [('v', v1)])
            c2 = ('call', 'Tkw', [tok], [('v', v2)])
        elif how == 1:
            c1 = ('call', 'Tkw', [], [('p', tok), ('v', v1)])
            c2 = ('call', 'Tkw', [], [('v', v2), ('p', tok)])
        else:
            c1 = ('call', 'Tkw', [], [('v', v1), ('p', ('lit', 'a'))])
            c2 = ('call', 'Tkw', [], [('v', v1), ('p', ('rx', '[ab]+'))])
        return [('rule', name, None, ('choice', [('left', c1, ('lit', '2')), c2, ('seq', [('expect', c2), c1])]))]
    if fam >= 15:
        # the same name re-bound to depth 3-4, each level used again after the level inside it is
        # done (matched or not): every let gives back exactly the binding it found
        def nest(d):
            if d == 0:
                return use(x)
            inner = ('let', x, t(), nest(d - 1))
            w = draw(st.integers(0, 4))
            if w == 0:
                inner = ('opt', inner)
            elif w == 1:
                inner = ('rep', inner, 0, 2)
            elif w == 2:
                inner = ('choice', [('seq', [inner, ('lit', '2')]), inner, ('lit', '1')])
            elif w == 3:
                inner = ('opt', ('expect', inner))
            return ('seq', [inner, use(x)])
        d = draw(st.integers(2, 3))
        if fam == 15:
            return [('rule', name, None, ('let', x, t(), nest(d)))]
        return [('class', name, None, [('field', x, t()), ('field', 'inner', nest(d)), ('field', 'seen', use(x))])]
    if fam >= 13:
        # a class whose `let` (omitted) or plain member is used inside compound arguments of the
        # members that follow: symbolic count, inline Python, nested call, keyword argument
        kind = draw(st.sampled_from(['let', 'let', 'field']))
        uses = [
            ('call', 'Tpair', [('rep', ('lit', 'a'), 'n', 'n')], []),
            ('call', 'Tkw', [('where', ('ref', 'W'), ('py', 'lambda v: len(v) >= n')), ('py', 'n')], []),
            ('call', 'Tpair', [('call', 'Tkw', [('rep', ('rx', '[ab]'), None, 'n'), ('ref', 'n')], [])], []),
            ('call', 'Tkw', [], [('v', ('py', 'n + 1')), ('p', ('left', ('rep', ('lit', 'a'), 'n', 'n'), ('opt', ('lit', 'b'))))]),
            ('call', 'Tcap3', [('rep', ('lit', 'b'), None, 'n'), ('ref', 'n')], []),
        ]
        k = draw(st.integers(1, 2))
        chosen = draw(st.permutations(uses))[:k]
        members = [(kind, 'n', ('ref', 'D'))]
        for i, u in enumerate(chosen):
            members.append(('field', 'u%d' % i, u))
        return [('class', name, None, members)]
    if fam == 10:
        # static scoping: an inner let of the same name in an EARLIER alternative never binds
        # (its token "Q" is not in any input), so the later use still denotes the outer binding
        tn = name + 'T'
        x = draw(st.sampled_from([x, x, 'W', 'B']))     # sometimes the name also shadows a rule
        ref_use = draw(st.sampled_from([('call', 'Tsame', [('ref', x)], []), ('call', 'Tval', [('ref', x)], []),
                                        ('call', 'Tkw', [('lit', 'a'), ('ref', x)], []),
                                        ('call', 'Tkw', [('seq', [('lit', 'a'), ('call', 'Tval', [('ref', x)], [])]), ('py', '1')], [])]))
        if draw(st.booleans()):
            # (the binding expression may mention the let's own name - then it means the rule;
            # that was finding F30 until it was fixed)
            bind = t()
            return [('rule', name, None, ('let', x, bind, ('choice', [('let', x, ('lit', 'Q'), ('lit', 'a')), ref_use])))]
        return [('rule', tn, [x], ('choice', [('let', x, ('lit', 'Q'), ('lit', 'a')),
                                              ('seq', [('ref', x), draw(st.sampled_from([
                                                  ('ref', x), ('call', 'Tpair', [('ref', x)], []),
                                                  ('call', 'Tpair', [('left', ('ref', x), ('opt', ('lit', 'b')))], [])]))])])),
                ('rule', name, None, ('call', tn, [draw(st.sampled_from([('lit', 'a'), ('ref', 'W'), ('rx', '[ab]')]))], []))]
    if fam >= 11:
        # the same compound argument text at two call sites where a name resolves differently:
        # the rule W here, the parameter W (shadowing the rule) inside Tshadow
        a = draw(st.sampled_from([('lit', 'a'), ('lit', 'b'), ('ref', 'B'), ('rx', 'a+')]))
        direct = ('call', 'Tpair', [('left', ('ref', 'W'), ('opt', ('lit', 'b')))], [])
        via = ('call', 'Tshadow', [a], [])
        order = [direct, via] if fam == 11 else [via, direct]
        return [('rule', name, None, ('choice', [('seq', [order[0], ('lit', '2')]), ('seq', [order[1], ('opt', ('lit', '1'))]),
                                                 order[0]]))]
    if fam >= 7:
        # the same template instantiated twice at one position with arguments that differ only
        # by order / in a nested place (memo keys must tell them apart)
        a1, a2 = draw(st.sampled_from([(('lit', 'a'), ('lit', 'b')), (('ref', 'A'), ('ref', 'B')),
                                       (('lit', 'a'), ('rx', '[ab]')), (('py', '1'), ('py', '2')),
                                       (('py', '[1, 2]'), ('py', '[2, 1]')), (('py', '1'), ('py', '"1"'))]))
        if a1[0] == 'py':
            c1 = ('call', 'Tkw', [('lit', 'a'), ('py', '(%s, %s)' % (a1[1], a2[1]))], [])
            c2 = ('call', 'Tkw', [('lit', 'a'), ('py', '(%s, %s)' % (a2[1], a1[1]))], [])
            if fam == 8:
                c1 = ('call', 'Tval', [a1], [])
                c2 = ('call', 'Tval', [a2], [])
        elif fam == 7:
            c1 = ('call', 'Tsep', [a1, a2], [])
            c2 = ('call', 'Tsep', [a2, a1], [])
        elif fam == 8:
            c1 = ('call', 'Tcap2', [a1, a2], [])
            c2 = ('call', 'Tcap2', [a2, a1], [])
        else:
            c1 = ('call', 'Tpair', [('seq', [a1, ('opt', a2)])], [])
            c2 = ('call', 'Tpair', [('seq', [a2, ('opt', a1)])], [])
        return [('rule', name, None, ('choice', [('left', c1, ('lit', '2')), c2, ('seq', [('expect', c2), c1])]))]
    if fam == 0:      # alternative 1 binds x, consumes, fails; alternative 2 binds x differently
        return [('rule', name, None, ('choice', [
            ('let', x, t(), ('seq', [t(), ('lit', '2')])),
            ('let', x, t(), ('seq', [use(x), ('opt', t())]))]))]
    if fam == 1:      # successive iterations
        return [('rule', name, None, ('rep', ('let', x, t(), ('seq', [('opt', ('lit', '1')), use(x)])), 0, None))]
    if fam == 2:      # recursive invocation in between binding and use
        return [('rule', name, None, ('let', x, t(), ('seq', [('opt', ('right', ('lit', '1'), ('ref', name))), use(x)])))]
    if fam == 3:      # class recursion: inner instance binds the same field names
        return [('class', name, None, [('field', x, t()), ('field', 'inner', ('opt', ('right', ('lit', '1'), ('ref', name)))),
                                       ('field', 'seen', use(x))])]
    if fam == 4:      # sibling invocation through a template whose parameter has the caller's name
        tn = name + 'T'
        return [('rule', tn, [x], ('seq', [('py', x), t()])),
                ('rule', name, None, ('let', x, t(), ('seq', [('call', tn, [('py', '"q"')], []), use(x)])))]
    if fam == 5:      # data-dependent count rebound per iteration
        return [('rule', name, None, ('rep', ('let', 'n', ('ref', 'D'), ('rep', ('lit', 'a'), 'n', 'n')), 0, None))]
    # lookahead binds, then the real attempt binds again
    return [('rule', name, None, ('seq', [('expect', ('let', x, t(), ('py', x))), ('let', x, t(), use(x))]))]


def entry_points(g):
    """Names of parameterless rules and classes (usable through R.parse / C.parse)."""
    return [r[1] for r in g.rules if r[2] is None]
