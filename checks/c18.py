"""C18 - parse calls are isolated from each other.
Histories (hypothesis RuleBasedStateMachine): parse / parse-with-raising-callback / parse with a
nested parse started from a callback (same or other module, result embedded or dropped) /
Grammar() of an extension, of another description under an existing name, of an unrelated
grammar.  Harness-owned thread schedules at callback granularity; free-running stress.
Oracle (model): the outcome of every call - value, spans with line/column, error position and
message - equals the outcome of the same call on a pristine module compiled from the same
description and never used before.  DESIGN.md 4/C18."""
import sys
import threading
import itertools

from vlib import runner, peg, sut, diff
from vlib.runner import Check, Result, h64

PYSEC = '''
HOOK = {}
def hook(tag, v):
    f = HOOK.get('fn')
    return f(tag, v) if f else v
'''

DESCS = [
    # 0: classes, spans, ignore, multi-line
    '''ignore Space = /[ ]+/
class Num {
    v: /[0-9]+/ |> `lambda x: hook('num', x)`
}
class Pair {
    l: "(" >> Item
    r: "," >> Item << ")"
}
Word = /[a-z]+/ |> `lambda x: hook('word', x)`
Item = Pair | Num | Word
Line = Item /? ";"
start = Line // "\\n"
''',
    # 1: operator table + template
    '''ignore /[ ]+/
class Id {
    name: /[a-z]/ |> `lambda x: hook('id', x)`
}
Twice(x) = [x, x]
Expr = Id between {
    mixfix: "(" >> Expr << ")"
    postfix: "!"
    left: "+", "-"
}
Line = Expr | Twice("#")
start = Line // "\\n"
''',
    # 2: no ignore, where/let, failure paths
    '''class Tag {
    open: "<" >> Name << ">"
    body: (Tag | Text)*
    close: "</" >> Name << ">" where `lambda x: hook('close', x) == open`
}
Name = /[a-z]+/
Text = /[^<]+/ |> `lambda x: hook('text', x)`
start = (Tag | Text)+
''',
    # 3: inline Python that builds mutable values (accumulators filled during the parse, default
    # results): every call - and every caller, who may do to a result what it likes - gets its own
    '''ignore /[ ]+/
Word = /[a-z]+/ |> `lambda x: hook('word', x)`
class Bag {
    let acc: `[]`
    let seen: `{}`
    pass ("+" >> (Word |> `acc.append`))*
    pass ("-" >> (Word |> `lambda w: seen.setdefault(len(seen), w)`))*
    items: `acc`
    count: `len(acc)`
    tally: `seen`
}
Dflt = Word+ | `[]`
Tbl = ("#" >> Word)+ | `{'none': []}`
class Tag(label) {
    w: Word?
    shown: `repr(label)`
}
start = [Bag, (";" >> Dflt)?, ("," >> Tbl)?]
''',
]
# (entry points with arguments: values that are == but not the same value are different arguments)
TAG_ARGS = [(1,), (True,), (1.0,), (0,), (False,), (0.0,), ('x',), (2,), (2.0,), ((1, 2),), ((1.0, 2),)]
ENTRIES = [[None, 'Line', 'Item', 'Pair', 'Num'], [None, 'Line', 'Expr', 'Id'], [None, 'Tag', 'Text'], [None, 'Bag', 'Dflt', 'Tbl'] + [('Tag', a) for a in TAG_ARGS]]
TEXT_POOL = [
    ['(1,a);b', '12;x\ny', '(1,(2,z))', 'a;;b', '1 2', '(1,a;b', 'ab\n(3,4);c\n5', '', ';', '( 1 , a )', 'x\n\n(1,2)', 'x\n\n(1,2'],
    ['a+b', 'a+b!-c', '(a+b)!\n##', 'a+', '##\na', 'a++b', '((a))', 'a\nb\nc+d', '', '#a', 'a -b', 'a\n(b+'],
    ['<a>x</a>', '<a><b>y</b>z</a>', 'plain', '<a>x</b>', '<a>', 'x<a>\ny</a>z', '', '<a></a><b></b>', '<a>x</a>\n<b>', '<ab>\n</ab>q'],
    ['+a +b', '+a;x y', '', ';', '+a,#k', ',', '+a+b -c-d-c;e,#f#g', '+a +', 'x', '-a-b;', '+a;,', 'x y'],
]


def variants(t):
    """Same-length variants: a character swapped for a line break, two characters transposed."""
    out = [t]
    if len(t) >= 2:
        out.append(t[:1] + '\n' + t[2:])
        out.append(t[1] + t[0] + t[2:])
        out.append(t[:-1] + '\n')
    return out


_counter = itertools.count()


def compile_desc(di, named=None, extends=None, extra=''):
    head = ''
    if named:
        head = 'grammar %s%s\n' % (named, ' extends %s' % extends if extends else '')
    desc = head + ('```' + PYSEC + '```\n' if not extends else '') + (DESCS[di] if not extends else '') + extra
    mod, err = sut.compile_grammar(desc)
    return mod, err, desc


def deep_outcome(module, kind, raw):
    """Everything observable about the result of one call."""
    if kind == 'OK' or kind == 'PARTIAL':
        val = raw.partial_result if kind == 'PARTIAL' else raw
        spans = []
        for o in peg.objects_of(val):
            pi = o._metadata.position_info
            spans.append(None if pi is None else (tuple(pi.start), tuple(pi.end)) if type(pi).__name__ == '_PositionInfo' else repr(pi))
        extra = ()
        if kind == 'PARTIAL':
            extra = (tuple(raw.last_position), str(raw))
        return (kind, peg.canon(val), tuple(spans)) + extra
    if kind == 'FAIL':
        return ('FAIL', tuple(raw.position), str(raw))
    return (kind,)


def call(module, entry, text, pos, fullparse, hookfn=None):
    """One parse call with a hook installed; returns deep outcome."""
    module.HOOK['fn'] = hookfn
    try:
        fn = None
        if isinstance(entry, tuple):
            try:
                fn = getattr(module, entry[0]).parse(*entry[1])
            except Exception as e:
                return ('EXC', 'entry:' + type(e).__name__)
        out, raw = sut.run(module, None if fn else entry, text, pos, fullparse, budget=10.0, raw=True, fn=fn)
    finally:
        module.HOOK['fn'] = None
    if out[0] in ('OK', 'PARTIAL', 'FAIL'):
        d = deep_outcome(module, out[0], raw)
        if out[0] != 'FAIL':
            scribble(raw.partial_result if out[0] == 'PARTIAL' else raw)
        return d
    return out[:2] if out[0] == 'EXC' else out


def entry_fn(module, entry):
    """The parse callable of an entry point: None = module-level parse, a name = R.parse / C.parse,
    (name, args) = C.parse(*args) of a class with parameters."""
    if isinstance(entry, tuple):
        return getattr(module, entry[0]).parse(*entry[1])
    return sut.entry(module, entry)


def scribble(val):
    """What a caller may do with a result once it has it: every list and dict in it is modified in
    place.  No later call may notice."""
    stack, seen = [val], set()
    while stack:
        x = stack.pop()
        if id(x) in seen:
            continue
        seen.add(id(x))
        if isinstance(x, list):
            stack.extend(x)
            x.append('SCRIBBLED')
        elif isinstance(x, dict):
            stack.extend(x.values())
            x['SCRIBBLED'] = True
        elif isinstance(x, tuple):
            stack.extend(x)
        elif hasattr(x, '_fields') and hasattr(x, '_metadata'):
            stack.extend(getattr(x, f) for f in x._fields)


class Model:
    """Pristine outcomes, cached per (description index, call)."""

    def __init__(self):
        self.cache = {}

    def expected(self, di, entry, text, pos, fullparse, canned=None, raise_at=None):
        key = (di, repr(entry), text, pos, fullparse, canned, raise_at)
        if key not in self.cache:
            mod, err, _ = compile_desc(di, named=sut.fresh_name('vfc18p_'))
            if mod is None:
                raise RuntimeError('pristine compile failed: %r' % (err,))
            n = [0]

            def hookfn(tag, v):
                n[0] += 1
                if raise_at is not None and n[0] == raise_at:
                    raise ValueError('callback failure %d' % raise_at)
                if canned is not None and n[0] == canned[0]:
                    return ('N', canned[1]) if canned[2] else v
                return v
            self.cache[key] = call(mod, entry, text, pos, fullparse, hookfn if (canned or raise_at) else None)
            sut.forget(mod.__name__)
        return self.cache[key]


MODEL = Model()


def summary(outcome):
    """A hashable, comparable digest of a deep outcome for embedding as a canned nested value."""
    return repr(outcome)


class World:
    def __init__(self, res=None):
        self.mods = []         # (module, di, name)
        self.res = res
        self.problem = None
        self.names = []

    def fail(self, bucket, **kw):
        if self.problem is None:
            self.problem = dict(kw, bucket=bucket)

    def ensure(self, k):
        while len(self.mods) <= k:
            di = len(self.mods) % len(DESCS)
            name = sut.fresh_name('vfc18_')
            mod, err, desc = compile_desc(di, named=name)
            if mod is None:
                self.fail('compile', got=list(err))
                return False
            self.mods.append((mod, di, name))
            self.names.append(name)
        return True

    def pick(self, mi, ei, ti, vi):
        mod, di, name = self.mods[mi % len(self.mods)]
        entry = ENTRIES[di][ei % len(ENTRIES[di])]
        base = TEXT_POOL[di][ti % len(TEXT_POOL[di])]
        vs = variants(base)
        t = vs[vi % len(vs)]
        if vi % 2:
            # half of the calls get a text object of their own that nobody keeps (the next such text may live
            # at the same address); the other half share the pooled object across calls and modules
            t = ''.join(list(t))
        return mod, di, entry, t

    def op_parse(self, mi, ei, ti, vi, pos, fullparse):
        mod, di, entry, text = self.pick(mi, ei, ti, vi)
        pos = pos % (len(text) + 1) if pos else 0
        got = call(mod, entry, text, pos, fullparse)
        want = MODEL.expected(di, entry, text, pos, fullparse)
        if got != want:
            self.fail('parse-differs-from-pristine', description=di, entry=entry, input=text, pos=pos, fullparse=fullparse,
                      got=list(got)[:3], pristine=list(want)[:3])
        return got

    def op_raise(self, mi, ei, ti, vi, at):
        mod, di, entry, text = self.pick(mi, ei, ti, vi)
        n = [0]

        def hookfn(tag, v):
            n[0] += 1
            if n[0] == at:
                raise ValueError('callback failure %d' % at)
            return v
        got = call(mod, entry, text, 0, True, hookfn)
        want = MODEL.expected(di, entry, text, 0, True, raise_at=at)
        if got != want:
            self.fail('raising-call-differs-from-pristine', description=di, entry=entry, input=text, got=list(got)[:3],
                      pristine=list(want)[:3])
        return got

    def op_nested(self, mi, ei, ti, vi, at, mi2, ei2, ti2, vi2, embed):
        mod, di, entry, text = self.pick(mi, ei, ti, vi)
        mod2, di2, entry2, text2 = self.pick(mi2, ei2, ti2, vi2)
        nested_want = MODEL.expected(di2, entry2, text2, 0, True)
        n = [0]
        seen = {}

        def hookfn(tag, v):
            n[0] += 1
            if n[0] == at:
                # a re-entrant parse in the middle of the outer one (HOOK is re-armed afterwards)
                saved = mod2.HOOK.get('fn')
                mod2.HOOK['fn'] = None
                try:
                    fn2 = getattr(mod2, entry2[0]).parse(*entry2[1]) if isinstance(entry2, tuple) else None
                    out, raw = sut.run(mod2, None if fn2 else entry2, text2, budget=10.0, raw=True, fn=fn2)
                    seen['nested'] = deep_outcome(mod2, out[0], raw) if out[0] in ('OK', 'PARTIAL', 'FAIL') else out[:2]
                    seen['raw'] = raw if out[0] == 'OK' else None
                finally:
                    mod2.HOOK['fn'] = saved
                if embed == 2 and seen.get('raw') is not None:
                    return ('N', seen['raw'])          # embed the nested RESULT OBJECTS in the outer result
                return ('N', summary(seen['nested'])) if embed else v
            return v
        got = call(mod, entry, text, 0, True, hookfn)
        if 'nested' in seen and seen['nested'] != nested_want:
            self.fail('nested-call-differs-from-pristine', description=di2, entry=entry2, input=text2,
                      got=list(seen['nested'])[:3], pristine=list(nested_want)[:3], outer_input=text)
            return got
        if embed == 2:
            # the outer result contains the nested result objects: only the outcome class and the
            # absence of an exception are compared, plus the spans of the nested objects
            if got[0] == 'EXC':
                self.fail('embedding-nested-result-raises:%s' % got[1], description=di, entry=entry, input=text,
                          nested_input=text2, got=list(got))
            return got
        want = MODEL.expected(di, entry, text, 0, True, canned=(at, summary(nested_want), bool(embed)))
        if 'nested' in seen and got != want:
            self.fail('outer-call-with-nested-parse-differs', description=di, entry=entry, input=text, nested_input=text2,
                      got=list(got)[:3], pristine=list(want)[:3])
        return got

    def op_grammar(self, kind, mi):
        if kind == 'unrelated':
            mod, err = sut.compile_grammar('start = "x" | "y"+')
        elif kind == 'extend':
            base, di, name = self.mods[mi % len(self.mods)]
            nm = sut.fresh_name('vfc18e_')
            extra = {0: 'Word = /[a-z]+/ |> `lambda x: x.upper()`\n', 1: 'Line = Expr\n', 2: 'Name = /[a-z]/\n',
                     3: 'Word = /[a-z]+/ |> `lambda x: x.upper()`\n'}[di]
            mod, err, _ = compile_desc(di, named=nm, extends=name, extra=extra)
            self.names.append(nm)
            if mod is None:
                self.fail('extension-does-not-compile', got=list(err))
        else:   # reuse the name of an existing module for a different description
            base, di, name = self.mods[mi % len(self.mods)]
            mod, err = sut.compile_grammar('grammar %s\nstart = "reused"\n' % name)

    def run_history(self, history):
        for op in history:
            k = op[0]
            if not self.ensure(3):
                break
            if k == 'parse':
                self.op_parse(*op[1:])
            elif k == 'raise':
                self.op_raise(*op[1:])
            elif k == 'nested':
                self.op_nested(*op[1:])
            elif k == 'grammar':
                self.op_grammar(*op[1:])
            if self.problem:
                break
        return self.problem

    def close(self):
        for n in self.names:
            sut.forget(n)


# ------------------------------------------------------------------ scheduled threads

class Scheduler:
    def __init__(self, nthreads):
        self.sems = [threading.Semaphore(0) for _ in range(nthreads)]
        self.waiting = [threading.Event() for _ in range(nthreads)]
        self.done = [False] * nthreads
        self.switches = [0] * nthreads
        self.tids = {}

    def yield_point(self):
        i = self.tids[threading.get_ident()]
        self.switches[i] += 1
        self.waiting[i].set()
        self.sems[i].acquire()

    def run(self, jobs, schedule):
        results = [None] * len(jobs)

        def worker(i):
            self.tids[threading.get_ident()] = i
            self.waiting[i].set()
            self.sems[i].acquire()
            try:
                results[i] = jobs[i]()
            except BaseException as e:       # noqa
                results[i] = ('EXC', type(e).__name__)
            self.done[i] = True
            self.waiting[i].set()
        threads = [threading.Thread(target=worker, args=(i,), daemon=True) for i in range(len(jobs))]
        for t in threads:
            t.start()
        for i in range(len(jobs)):
            self.waiting[i].wait(20)
        steps = list(schedule)
        guard = 0
        while not all(self.done) and guard < 100000:
            guard += 1
            alive = [i for i in range(len(jobs)) if not self.done[i]]
            i = alive[(steps.pop(0) if steps else 0) % len(alive)]
            self.waiting[i].clear()
            self.sems[i].release()
            if not self.waiting[i].wait(30):
                return None      # stuck: harness problem
        for t in threads:
            t.join(5)
        return results


def run_schedule(case):
    """case: {'calls': [(mi, ei, ti, vi)..], 'schedule': [ints]}"""
    w = World()
    try:
        if not w.ensure(3):
            return w.problem, 0
        sched = Scheduler(len(case['calls']))
        jobs = []
        wants = []
        per_thread = {}

        def dispatch(tag, v):
            sched.yield_point()
            return v
        for (mi, ei, ti, vi) in case['calls']:
            mod, di, entry, text = w.pick(mi, ei, ti, vi)
            wants.append((di, entry, text, MODEL.expected(di, entry, text, 0, True)))

            def job(mod=mod, entry=entry, text=text):
                fn = entry_fn(mod, entry)
                out, raw = sut.run(mod, None, text, budget=60.0, raw=True, fn=fn)
                return deep_outcome(mod, out[0], raw) if out[0] in ('OK', 'PARTIAL', 'FAIL') else out[:2]
            jobs.append(job)
        for mod, di, name in w.mods:
            mod.HOOK['fn'] = dispatch
        # the watchdog uses signals, which only work in the main thread: plain calls here
        results = sched.run([lambda j=j: _unwatched(j) for j in jobs], case['schedule'])
        for mod, di, name in w.mods:
            mod.HOOK['fn'] = None
        if results is None:
            return {'bucket': 'harness:scheduler-stuck'}, 0
        for (di, entry, text, want), got in zip(wants, results):
            if got != want:
                return {'bucket': 'interleaved-call-differs-from-pristine', 'description': di, 'entry': entry, 'input': text,
                        'got': list(got)[:3], 'pristine': list(want)[:3], 'schedule': case['schedule']}, max(sched.switches)
        return None, max(sched.switches)
    finally:
        w.close()


def _unwatched(job):
    return job()


def stress(n_threads, n_parses, seed):
    import random
    sys_switch = sys.getswitchinterval()
    w = World()
    try:
        if not w.ensure(3):
            return w.problem, 0
        rnd = random.Random(seed)
        plan = []
        for t in range(n_threads):
            calls = []
            for _ in range(n_parses):
                mi, ei, ti, vi = rnd.randrange(4), rnd.randrange(15), rnd.randrange(12), rnd.randrange(4)
                mod, di, entry, text = w.pick(mi, ei, ti, vi)
                calls.append((mod, di, entry, text, MODEL.expected(di, entry, text, 0, True)))
            plan.append(calls)
        bad = []

        def worker(calls):
            for mod, di, entry, text, want in calls:
                try:
                    f = entry_fn(mod, entry)
                    try:
                        v = f(text)
                        got = deep_outcome(mod, 'OK', v)
                    except mod.PartialParseError as e:
                        got = deep_outcome(mod, 'PARTIAL', e)
                    except mod.ParseError as e:
                        got = deep_outcome(mod, 'FAIL', e)
                except Exception as e:
                    got = ('EXC', type(e).__name__)
                if got != want and len(bad) < 3:
                    bad.append({'bucket': 'concurrent-call-differs-from-pristine', 'description': di, 'entry': entry,
                                'input': text, 'got': list(got)[:3], 'pristine': list(want)[:3]})
        sys.setswitchinterval(1e-6)
        threads = [threading.Thread(target=worker, args=(c,), daemon=True) for c in plan]
        for t in threads:
            t.start()
        for t in threads:
            t.join(300)
        return (bad[0] if bad else None), n_threads * n_parses
    finally:
        sys.setswitchinterval(sys_switch)
        w.close()


class C18(Check):
    id = 'C18'
    technique = 'PBT (stateful): hypothesis RuleBasedStateMachine over parse / raising-callback / nested-parse / Grammar() histories; harness-owned thread schedules at callback granularity; free-running stress; model = pristine module'
    rule = ('cases = (i) histories of operations on three named grammar modules (classes with spans + ignore + multi-line; '
            'operator table + template; data-dependent tags without ignore): parse(entry, text, pos, fullparse), parse whose '
            'inline-Python callback raises at its n-th invocation, parse whose n-th callback starts a nested parse on the same or '
            'another module (result dropped, embedded as data, or the nested result objects embedded in the outer result), '
            'Grammar() of an extension, of another description under an existing name, of an unrelated grammar; texts from '
            'per-module pools plus same-length variants (character swapped for a line break, transposition, trailing newline); '
            '(ii) 2-3 parses run in threads under a hypothesis-drawn schedule that decides at every callback which thread '
            'continues; (iii) free-running stress, 16 threads at switch interval 1e-6. Every outcome (value, every span with '
            'line/column, error position and message) must equal the outcome of the same call on a pristine module. '
            'Non-trivial iff a history repeats a call after a failed, raised or nested call on that module, or a schedule '
            'switches threads >= 2 times inside one parse; distinct by history / schedule.')
    assumptions = ['schedules are controlled at callback points only; preemption between two bytecodes is reached probabilistically by the stress part',
                   'pristine module = same description compiled under a fresh name and used exactly once']
    budget_quick = 170
    budget_thorough = 1500
    unreproducible_is_violation = True

    def tasks(self, tier, seed):
        n = 12 if tier == 'quick' else 48
        t = [('machine', seed * 1000003 + s, 25 if tier == 'quick' else 150) for s in range(n)]
        t += [('sched', seed * 1000003 + 500 + s, 60 if tier == 'quick' else 400) for s in range(3 if tier == 'quick' else 12)]
        t += [('stress', seed + s, 16, 40 if tier == 'quick' else 200) for s in range(1 if tier == 'quick' else 4)]
        return t

    def run_task(self, task):
        res = Result()
        if task[0] == 'stress':
            _, s, nt, npar = task
            bad, n = stress(nt, npar, s)
            res.evals += n
            res.nontrivial.add(h64('stress', s))
            res.sample({'stress_threads': nt, 'parses_per_thread': npar})
            if bad:
                res.mismatch({'stress': [nt, npar, s]})
            return res
        import hypothesis
        from hypothesis import given, settings, seed, HealthCheck, Phase, strategies as st
        if task[0] == 'sched':
            _, s, n = task
            callst = st.tuples(st.integers(0, 3), st.integers(0, 14), st.integers(0, 11), st.integers(0, 3))

            @seed(s)
            @settings(max_examples=n, database=None, deadline=None, phases=[Phase.generate],
                      suppress_health_check=list(HealthCheck), report_multiple_bugs=False)
            @given(st.lists(callst, min_size=2, max_size=3), st.lists(st.integers(0, 5), min_size=0, max_size=40))
            def prop(calls, schedule):
                if runner.over_budget(res):
                    return
                case = {'calls': calls, 'schedule': schedule}
                bad, switches = run_schedule(case)
                res.evals += len(calls)
                if switches >= 2:
                    res.nontrivial.add(h64(repr(case)))
                    res.hist['schedules_with_2plus_switches'] += 1
                    if len(res.samples) < 1:
                        res.sample({'scheduled_calls': calls, 'schedule': schedule, 'max_switches_in_one_parse': switches})
                if bad:
                    res.mismatch(case)
            prop()
            return res
        from hypothesis.stateful import RuleBasedStateMachine, rule, run_state_machine_as_test
        _, s, n = task
        I = st.integers

        class Machine(RuleBasedStateMachine):
            def __init__(self):
                super().__init__()
                self.world = World(res)
                self.history = []
                self.dirty = {}      # module index -> kind of the last non-plain event

            def step(self, op):
                w = self.world
                if w.problem:
                    return
                self.history.append(op)
                if not w.ensure(3):
                    self.report()
                    return
                if op[0] == 'parse':
                    got = w.op_parse(*op[1:])
                    mi = op[1] % 3
                    res.evals += 1
                    if self.dirty.get(mi):
                        res.nontrivial.add(h64(repr(self.history[-6:])))
                        res.hist['parse_after_' + self.dirty[mi]] += 1
                        if len(res.samples) < 1 and got[0] == 'OK':
                            res.sample({'history_tail': [list(o) for o in self.history[-4:]], 'outcome': list(got)[:2]})
                    if got[0] == 'FAIL':
                        self.dirty[mi] = 'failed'
                elif op[0] == 'raise':
                    got = w.op_raise(*op[1:])
                    res.evals += 1
                    if got[0] == 'EXC':
                        self.dirty[op[1] % 3] = 'raised'
                elif op[0] == 'nested':
                    w.op_nested(*op[1:])
                    res.evals += 2
                    self.dirty[op[1] % 3] = 'nested'
                    self.dirty[op[6] % 3] = 'nested'
                else:
                    w.op_grammar(*op[1:])
                    res.hist['grammar_' + op[1]] += 1
                    self.dirty[op[2] % 3] = 'grammar-' + op[1]
                if w.problem:
                    self.report()

            def report(self):
                if not getattr(self, 'reported', False):
                    self.reported = True
                    res.mismatch({'history': [tuple(o) for o in self.history]})

            @rule(mi=I(0, 3), ei=I(0, 14), ti=I(0, 11), vi=I(0, 3), pos=I(0, 6), full=st.booleans())
            def parse(self, mi, ei, ti, vi, pos, full):
                self.step(('parse', mi, ei, ti, vi, pos if pos < 4 else 0, full))

            @rule(mi=I(0, 3), ei=I(0, 14), ti=I(0, 11), vi=I(0, 3), at=I(1, 4))
            def raising(self, mi, ei, ti, vi, at):
                self.step(('raise', mi, ei, ti, vi, at))

            @rule(mi=I(0, 3), ei=I(0, 14), ti=I(0, 11), vi=I(0, 3), at=I(1, 3), mi2=I(0, 3), ei2=I(0, 14), ti2=I(0, 11),
                  vi2=I(0, 3), embed=I(0, 2))
            def nested(self, mi, ei, ti, vi, at, mi2, ei2, ti2, vi2, embed):
                self.step(('nested', mi, ei, ti, vi, at, mi2, ei2, ti2, vi2, embed))

            @rule(kind=st.sampled_from(['unrelated', 'extend', 'reuse']), mi=I(0, 3))
            def grammar(self, kind, mi):
                self.step(('grammar', kind, mi))

            # the previous call's module and text once more (the same pooled text object when it was one),
            # through another entry point and in another way: what the earlier call computed or left behind
            # is not this call's business
            def last(self):
                for op in reversed(self.history):
                    if op[0] in ('parse', 'raise', 'nested'):
                        return op[1], op[3], op[4]
                return 0, 0, 0

            @rule(ei=I(0, 14), pos=I(0, 6), full=st.booleans())
            def parse_again(self, ei, pos, full):
                mi, ti, vi = self.last()
                self.step(('parse', mi, ei, ti, vi, pos if pos < 4 else 0, full))

            @rule(ei=I(0, 14), at=I(1, 4))
            def raising_again(self, ei, at):
                mi, ti, vi = self.last()
                self.step(('raise', mi, ei, ti, vi, at))

            @rule(ei=I(0, 14), at=I(1, 3), ei2=I(0, 14), embed=I(0, 2))
            def nested_again(self, ei, at, ei2, embed):
                mi, ti, vi = self.last()
                self.step(('nested', mi, ei, ti, vi, at, mi, ei2, ti, vi, embed))

            def teardown(self):
                self.world.close()
                res.hist['histories'] += 1

        run_state_machine_as_test(
            hypothesis.seed(s)(Machine),
            settings=settings(max_examples=n, stateful_step_count=25, database=None, deadline=None,
                              phases=[Phase.generate], suppress_health_check=list(HealthCheck),
                              report_multiple_bugs=False))
        return res

    def replay(self, case):
        if 'stress' in case:
            bad, n = stress(*case['stress'][:2], case['stress'][2])
            return bad
        if 'calls' in case:
            bad, sw = run_schedule(case)
            return bad
        w = World()
        try:
            return w.run_history(case['history'])
        finally:
            w.close()

    def shrink(self, case, still_fails, deadline):
        import time
        if 'history' in case:
            hist = list(case['history'])
            i = len(hist) - 1
            while i >= 0 and time.time() < deadline:
                cand = hist[:i] + hist[i + 1:]
                if still_fails({'history': cand}):
                    hist = cand
                i -= 1
            return {'history': hist}
        if 'calls' in case:
            best = dict(case)
            sch = list(best['schedule'])
            while sch and time.time() < deadline:
                c = dict(best)
                c['schedule'] = sch[:-1]
                if still_fails(c):
                    sch = sch[:-1]
                    best = c
                else:
                    break
            return best
        return case

    def describe(self, case):
        out = dict(case)
        out['descriptions'] = DESCS
        if 'history' in case:
            w = World()
            try:
                w.ensure(3)
                ops = []
                for op in case['history']:
                    if op[0] in ('parse', 'raise', 'nested'):
                        mod, di, entry, text = w.pick(*op[1:5])
                        ops.append({'op': op[0], 'description': di, 'entry': entry, 'input': text, 'rest': list(op[5:])})
                    else:
                        ops.append({'op': list(op)})
                out['readable_history'] = ops
            finally:
                w.close()
        return out


if __name__ == '__main__':
    sys.exit(runner.main(C18()))
