"""Generators: exhaustive enumerators and hypothesis strategies over the grammar AST.
Well-formedness is by construction (peg.nullable), never by rejection sampling."""
import itertools
from hypothesis import strategies as st
from . import peg

# ------------------------------------------------------------------ alphabets / inputs

ALPHA = 'abZ'          # 'Z' is the foreign character no token matches


def all_inputs(alphabet, maxlen, mode='text'):
    out = []
    for n in range(maxlen + 1):
        for p in itertools.product(alphabet, repeat=n):
            s = ''.join(p)
            out.append(s.encode('latin-1') if mode == 'bytes' else s)
    return out


# -------------------------------------------------------------------------- core leaves

# (patterns that coincide textually with the case-insensitive literals below - 'A', 'aB', 'b', 'ab' -
# are in the pool on purpose: anything keyed by pattern text alone confuses the two)
# ... and patterns that accept the empty string in isolation but can FAIL in context (end anchor,
# lookahead): "matches ''" is not the same as "cannot fail"
RX_POOL = ['a+', '[ab]', 'a|ab', 'b?a', '(?:ab)+', 'a*', 'b?', 'A', 'aB', 'b', 'ab', 'a*$', '(?!b)', 'b*(?!a)', '(?=a)']

HELPER_RULES = [
    ('rule', 'RA', None, ('lit', 'a')),
    ('rule', 'RAB', None, ('seq', [('lit', 'a'), ('lit', 'b')])),
    ('rule', 'RBS', None, ('rep', ('lit', 'b'), 1, None)),
]
HELPER_NULLABLE = {'RA': False, 'RAB': False, 'RBS': False}


def core_leaves(mode='text'):
    leaves = [
        ('lit', 'a'), ('lit', 'b'), ('lit', 'ab'), ('lit', ''),
        ('ci', 'A'), ('rx', 'A'),
        ('rx', 'a+'), ('rx', 'b?a'), ('rx', 'a|ab'), ('rx', 'a*'), ('rx', 'a*$'), ('rx', 'b*(?!a)'),
        ('ref', 'RA'), ('ref', 'RAB'),
        ('fail', None), ('backtrack', 1),
    ]
    if mode == 'bytes':
        leaves.append(('byte', 0x61))
    return leaves


def nn(e, rules=HELPER_NULLABLE):
    return not peg.nullable(e, rules)


UNARY = ['opt', 'star', 'plus', 'rep2', 'rep12', 'rep02', 'rep2_', 'expect', 'expectnot', 'skip1']
BINARY = ['seq', 'right', 'left', 'choice', 'longest', 'skip2']


def apply_unary(u, e, rules=HELPER_NULLABLE):
    """Returns the node or None when the combination is not well-formed."""
    if u == 'opt':
        return ('opt', e)
    if u == 'expect':
        return ('expect', e)
    if u == 'expectnot':
        return ('expectnot', e)
    if u in ('rep2', 'rep12', 'rep02') and not peg.uses_backtrack(e, rules):
        # a BOUNDED repetition of something that can match nothing is finite and well defined
        lo, hi = {'rep2': (2, 2), 'rep12': (1, 2), 'rep02': (None, 2)}[u]
        return ('rep', e, lo, hi)
    if not nn(e, rules):
        return None
    if u == 'star':
        return ('rep', e, 0, None)
    if u == 'plus':
        return ('rep', e, 1, None)
    if u == 'rep2':
        return ('rep', e, 2, 2)
    if u == 'rep12':
        return ('rep', e, 1, 2)
    if u == 'rep02':
        return ('rep', e, None, 2)
    if u == 'rep2_':
        return ('rep', e, 2, None)
    if u == 'skip1':
        return ('skip', [e])
    raise ValueError(u)


def apply_binary(b, x, y, rules=HELPER_NULLABLE):
    if b == 'seq':
        return ('seq', [x, y])
    if b == 'right':
        return ('right', x, y)
    if b == 'left':
        return ('left', x, y)
    if b == 'choice':
        return ('choice', [x, y])
    if b == 'longest':
        return ('longest', [x, y])
    if b == 'skip2':
        if not nn(x, rules) or not nn(y, rules):
            return None
        return ('skip', [x, y])
    raise ValueError(b)


def enumerate_depth1(mode='text'):
    L = core_leaves(mode)
    out = list(L)
    for u in UNARY:
        for e in L:
            n = apply_unary(u, e)
            if n is not None:
                out.append(n)
    for b in BINARY:
        for x in L:
            for y in L:
                n = apply_binary(b, x, y)
                if n is not None:
                    out.append(n)
    return out


def depth2_shape(index, d1, mode='text'):
    """The index-th depth-2 shape in a fixed enumeration order (unary over depth-1, then
    binary over depth<=1 pairs); None when not well-formed.  Total = depth2_count(d1)."""
    nu = len(UNARY) * len(d1)
    if index < nu:
        u = UNARY[index // len(d1)]
        return apply_unary(u, d1[index % len(d1)])
    index -= nu
    nb = len(d1) * len(d1)
    b = BINARY[index // nb]
    r = index % nb
    return apply_binary(b, d1[r // len(d1)], d1[r % len(d1)])


def depth2_count(d1):
    return len(UNARY) * len(d1) + len(BINARY) * len(d1) * len(d1)


# Exposing contexts: the result reveals where X left the position after failing or
# succeeding (DESIGN 4/C01 part 2).
KS = [('lit', 'a'), ('lit', 'ab'), ('rx', '[ab]+')]


def contexts(x, k, rules=HELPER_NULLABLE):
    out = [
        ('choice', [x, k]),
        ('choice', [k, x]),
        ('seq', [('opt', x), k]),
        ('seq', [('expect', x), k]),
        ('seq', [('expectnot', x), k]),
        ('longest', [x, k]),
        ('longest', [k, x]),
        ('seq', [x, k]),
    ]
    if nn(x, rules):
        out.append(('seq', [('rep', x, 0, None), k]))
        out.append(('seq', [('skip', [x]), k]))
        out.append(('right', ('rep', ('choice', [x, k]), 0, None), k))
        out.append(('choice', [('rep', x, 2, 3), k]))
        out.append(('seq', [('sep', x, ('lit', 'b'), False, False, True, False), k]))
    return out


# ------------------------------------------------------------ hypothesis: core grammars


@st.composite
def core_expr(draw, depth, names_later, names_any, allow_backtrack, mode, rules_null, guarded=False):
    """A core expression.  `names_later`: rule names that may be referenced anywhere
    (they are defined later: no left recursion).  `names_any`: all rule names; only used
    once `guarded` (a non-nullable, backtrack-free item precedes in a sequence)."""
    def sub(g=guarded, d=depth - 1):
        return draw(core_expr(d, names_later, names_any, allow_backtrack, mode, rules_null, g))

    def nonnull(e):
        if not peg.nullable(e, rules_null):
            return e
        return ('right', ('lit', 'a'), e) if not peg.uses_backtrack(e, rules_null) else ('lit', 'a')

    leaf_kinds = ['lit', 'lit', 'rx', 'ci', 'fail']
    if names_later or (guarded and names_any):
        leaf_kinds += ['ref', 'ref']
    if allow_backtrack:
        leaf_kinds.append('backtrack')
    if mode == 'bytes':
        leaf_kinds.append('byte')
    if depth <= 0 or draw(st.integers(0, 9)) < 2:
        k = draw(st.sampled_from(leaf_kinds))
        if k == 'lit':
            return ('lit', draw(st.sampled_from(['a', 'b', 'ab', 'ba', 'aa', ''])))
        if k == 'rx':
            return ('rx', draw(st.sampled_from(RX_POOL)))
        if k == 'ci':
            return ('ci', draw(st.sampled_from(['A', 'aB', 'b', 'ab'])))
        if k == 'fail':
            return ('fail', draw(st.sampled_from([None, 'nope'])))
        if k == 'backtrack':
            return ('backtrack', draw(st.integers(1, 2)))
        if k == 'byte':
            return ('byte', draw(st.sampled_from([0x61, 0x62])))
        pool = list(names_later)
        if guarded:
            pool = list(names_any)
        return ('ref', draw(st.sampled_from(pool)))
    k = draw(st.sampled_from(['seq', 'seq', 'right', 'left', 'choice', 'choice', 'opt', 'rep', 'rep',
                              'expect', 'expectnot', 'skip', 'longest']))
    if k == 'seq':
        n = draw(st.integers(0, 3))
        items = []
        g = guarded
        for _ in range(n):
            e = sub(g)
            items.append(e)
            if not allow_backtrack and not peg.nullable(e, rules_null):
                g = True
        return ('seq', items)
    if k in ('right', 'left'):
        a = sub()
        g = guarded or (not allow_backtrack and not peg.nullable(a, rules_null))
        return (k, a, sub(g))
    if k in ('choice', 'longest'):
        return (k, [sub() for _ in range(draw(st.integers(2, 3)))])
    if k == 'opt':
        return ('opt', sub())
    if k == 'rep':
        lo, hi = draw(st.sampled_from([(0, None), (0, None), (1, None), (1, None), (2, None), (2, 2),
                                       (1, 2), (None, 2), (0, 1), (2, 3), (3, 3), (1, 1), (None, 1), (2, 10), (9, 12)]))
        body = sub()
        if hi is None or peg.uses_backtrack(body, rules_null):
            body = nonnull(body)       # only an unbounded repetition needs a body that makes progress
        return ('rep', body, lo, hi)
    if k in ('expect', 'expectnot'):
        return (k, sub())
    if k == 'skip':
        return ('skip', [nonnull(sub()) for _ in range(draw(st.integers(1, 2)))])
    raise ValueError(k)


@st.composite
def core_grammar(draw, nrules=6, depth=4, mode='text'):
    """Several rules R0..Rn-1 (+ start) forming a DAG with optional guarded recursion."""
    allow_backtrack = draw(st.integers(0, 3)) == 0
    names = ['R%d' % i for i in range(nrules)]
    rules = [None] * nrules
    rules_null = {}
    # build from the last rule backwards so that nullability of later rules is known
    for i in reversed(range(nrules)):
        later = names[i + 1:]
        # names_any only includes rules whose nullability is known or self (guarded use)
        e = draw(core_expr(draw(st.integers(1, depth)), later, names, allow_backtrack, mode,
                           dict(rules_null)))
        rules[i] = ('rule', names[i], None, e)
        # conservative: unknown (earlier) refs count as nullable inside peg.nullable
        rules_null[names[i]] = 'BT' if peg.uses_backtrack(e, rules_null) else peg.nullable(e, rules_null)
    g = peg.G(rules + [('rule', 'start', None, ('ref', 'R0'))], mode=mode)
    return g
