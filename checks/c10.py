"""C10 - class instances carry the exact span of input they were parsed from.
Oracle: spans recorded by the reference interpreter (walked in parallel with sourcer's
result), line/column recomputed independently; containment invariant.  DESIGN.md 4/C10."""
import sys

from vlib import runner, peg, gens, gens_rich, sut, shrink, diff
from vlib.runner import Check, Result, h64


def linecol(text, idx):
    if isinstance(text, bytes):
        return 1, idx + 1
    line = 1 + text.count('\n', 0, idx)
    ls = text.rfind('\n', 0, idx) + 1
    return line, idx - ls + 1


def is_newline_at(text, idx):
    return 0 <= idx < len(text) and text[idx:idx + 1] in ('\n',)


def check_position(p, text, idx):
    if type(p).__name__ != '_Position' or not isinstance(p.index, int):
        return 'position-type'
    if p.index != idx:
        return 'index:%r!=%r' % (p.index, idx)
    if idx < len(text) and not is_newline_at(text, idx):
        if (p.line, p.column) != linecol(text, idx):
            return 'line-column:%r!=%r' % ((p.line, p.column), linecol(text, idx))
    return None


def compare_spans(refv, sutv, text, check_containment):
    ro = list(peg.objects_of(refv))
    so = list(peg.objects_of(sutv))
    if len(ro) != len(so):
        return 'object-count'
    seen = {}
    for r, s in zip(ro, so):
        if r.span is None:
            continue
        a, b = r.span
        pi = s._metadata.position_info
        if id(s) in seen:
            if seen[id(s)] is not pi:
                return 'shared-instance-two-position-infos'
        seen[id(s)] = pi
        if b > a:
            if type(pi).__name__ != '_PositionInfo':
                return 'position-info-type:%s' % type(pi).__name__
            why = check_position(pi.start, text, a)
            if why:
                return 'start-' + why
            why = check_position(pi.end, text, b - 1)
            if why:
                return 'end-' + why
        else:
            if pi is not None and type(pi).__name__ != '_PositionInfo':
                return 'zero-width-position-info-type:%s' % type(pi).__name__
    if check_containment:
        # child span inside the parent's span (sourcer's own data only)
        stack = [(sutv, None)]
        while stack:
            x, parent = stack.pop()
            if hasattr(x, '_metadata') and hasattr(x, '_fields'):
                pi = x._metadata.position_info
                span = None
                if type(pi).__name__ == '_PositionInfo' and pi.end.index >= pi.start.index:
                    span = (pi.start.index, pi.end.index)
                    if parent is not None and not (parent[0] <= span[0] and span[1] <= parent[1]):
                        return 'child-span-outside-parent'
                nxt = span if span is not None else parent
                stack.extend((getattr(x, f), nxt) for f in x._fields)
            elif isinstance(x, (list, tuple)):
                stack.extend((c, parent) for c in x)
            elif isinstance(x, dict):
                stack.extend((c, parent) for c in x.values())
    return None


def nested(refv):
    for o in peg.objects_of(refv):
        if o.span is None:
            continue
        for _, fv in o.fields:
            for inner in peg.objects_of(fv):
                if inner.span is not None:
                    return True
    return False


def spread(t, ws, data, st):
    """Insert blanks/newlines between the characters of t."""
    out = []
    for i, ch in enumerate(t):
        out.append(data.draw(st.sampled_from(ws)) if (i or data.draw(st.booleans())) else '')
        out.append(ch)
    out.append(data.draw(st.sampled_from(ws)))
    return ''.join(out)


class C10(Check):
    id = 'C10'
    technique = 'PBT: hypothesis class-heavy grammars with ignore, multi-line inputs, pos > 0; spans from the reference interpreter walked in parallel + independent line/column + containment'
    rule = ('cases = (grammar, entry, input, pos); grammars: rich grammars (generated classes with plain/let/pass/requires '
            'members, class templates CP/CV/CN, class recursion, classes under repetition, option, lookahead, choice with '
            'abandoned alternatives, templates) with `ignore /[ \\n]+/`, and core grammars wrapped in classes (text and bytes); '
            'inputs: all token strings of length <= 3 with blanks and newlines inserted between tokens, at the start and at '
            'the end, parsed at pos 0 and behind a junk prefix at pos = k. For every instance that consumed input '
            'start.index / end.index / line / column are compared with the span recorded by the reference interpreter '
            '(also inside partial_result); type well-formedness and child-inside-parent are checked on sourcer\'s own data. '
            'Non-trivial iff the result holds >= 2 instances with nesting and the reference trace shows an abandoned '
            'alternative, a second reference to a rule at one position (memo reuse) or ignorable text skipped; distinct by '
            '(grammar text, entry, input, pos).')
    assumptions = ['offsets holding a line break are excepted from the line/column comparison, as in the statement',
                   'containment is only checked for grammars without lookahead/Backtrack']
    budget_quick = 170
    budget_thorough = 1500

    def tasks(self, tier, seed):
        n = 16 if tier == 'quick' else 64
        per = 120 if tier == 'quick' else 700
        return [('hyp', seed * 1000003 + s, per) for s in range(n)]

    def run_task(self, task):
        from hypothesis import given, settings, seed, HealthCheck, Phase, strategies as st
        res = Result()
        _, s, n = task
        gram = st.integers(0, 5).flatmap(lambda m: (
            gens.core_grammar(nrules=4, depth=3, mode='bytes') if m == 0 else
            gens.core_grammar(nrules=4, depth=3) if m == 1 else
            gens_rich.rich_grammar(nrules=3, depth=3)))

        @seed(s)
        @settings(max_examples=n, database=None, deadline=None, phases=[Phase.generate],
                  suppress_health_check=list(HealthCheck), report_multiple_bugs=False)
        @given(gram, st.data())
        def prop(g, data):
            rich = any(r[1] == 'Tsame' for r in g.rules)
            if not rich:
                # wrap core rules in classes so that there are spans to look at
                rules = [r for r in g.rules if r[1] != 'start']
                rules.append(('class', 'KA', None, [('field', 'v', ('ref', 'R0'))]))
                rules.append(('class', 'KB', None, [('field', 'items', ('rep', ('ref', 'KA'), 0, 3)),
                                                   ('field', 'tail', ('opt', ('ref', 'R1')))]))
                # objects that sit BEHIND plain values in a list, and lists nested in lists
                rules.append(('rule', 'SeqMixed', None, ('seq', [('opt', ('lit', 'a')), ('ref', 'KA'),
                                                                  ('seq', [('opt', ('lit', 'b')), ('opt', ('ref', 'KA'))])])))
                # a class without visible fields: its instances are still distinct objects, each with its own span
                rules.append(('class', 'KE', None, [('pass', None, ('ref', 'R0'))]))
                rules.append(('rule', 'SeqE', None, ('seq', [('opt', ('expect', ('right', ('ref', 'R0'), ('ref', 'KE')))),
                                                              ('rep', ('ref', 'KE'), 1, 3)])))
                rules.append(('class', 'Start', None, [('field', 'b', ('ref', 'KB')), ('field', 'again', ('opt', ('ref', 'KA'))),
                                                      ('field', 'm', ('opt', ('ref', 'SeqMixed'))),
                                                      ('field', 'e', ('opt', ('ref', 'SeqE')))]))
                g = g.copy(rules=rules)
            # blanks, newlines and other characters that str.splitlines() - but not the statement -
            # treats as line boundaries (they are ordinary ignorable characters here)
            ws = [' ', '\n', '  ', ' \n', '\n\n ', '', '\x0c', ' \r', '\x0b ', '\x85']
            if g.mode != 'bytes':
                ws += ['\u2028', ' \u2029']
            ign = ('rx', '\\s+')
            g = g.copy(ignores=[('Space' if data.draw(st.booleans()) else None, ign)])
            base = gens.all_inputs('ab12' if rich else 'ab', 3 if rich else 4)
            texts = []
            for t in base[1:]:
                texts.append(spread(t, ws, data, st))
            if g.mode == 'bytes':
                texts = [t.encode('latin-1') for t in texts]
            if runner.over_budget(res):
                return
            desc = peg.render(g)
            mod, err = sut.compile_grammar(desc)
            if mod is None:
                res.mismatch({'g': peg.g_to_dict(g), 'entry': g.start_name(), 'text': '', 'pos': 0})
                return
            res.hist['grammars_rich' if rich else 'grammars_core'] += 1
            bt = any(x[0] in ('backtrack', 'expect', 'expectnot') for r in g.rules for e in peg.rule_exprs(r) for x in peg.walk(e))
            entries = [e for e in gens_rich.entry_points(g) if e[0] in 'KFSs' or e.startswith('R')]
            # (compound entry points first: the cut must not drop them)
            entries = sorted(entries, key=lambda e: (e not in ('Start', 'SeqE', 'SeqMixed'), e.startswith('R')))[:8]
            for name in entries:
                fn = getattr(mod, name).parse
                for i, t in enumerate(texts):
                    pos = 0
                    if i % 3 == 2:
                        junk = 'zz\nz'[: 1 + i % 4]
                        junk = junk.encode('latin-1') if g.mode == 'bytes' else junk
                        t = junk + t
                        pos = len(junk)
                    it = peg.Interp(g, t)
                    try:
                        r = it.run_rule(name, pos)
                    except (peg.StepLimit, peg.RefError, RecursionError):
                        res.hist['ref_outside_domain'] += 1
                        continue
                    if r is None:
                        res.hist['out_FAIL'] += 1
                        continue
                    got, raw = sut.run(mod, None, t, pos, True, budget=diff.QUICK_BUDGET, raw=True, fn=fn)
                    res.evals += 1
                    exp = sut.expected(r, t)
                    res.hist['out_' + exp[0]] += 1
                    bad = None
                    if not sut.agrees(exp, got):
                        bad = 'outcome'
                    else:
                        val = raw.partial_result if got[0] == 'PARTIAL' else raw
                        bad = compare_spans(r[0], val, t, not bt)
                    ev = it.events
                    if nested(r[0]) and (ev.get('alt_taken') or ev.get('fail_after_consume') or ev.get('skip_tok')
                                         or any(v >= 2 for v in it.refcalls.values())):
                        res.nontrivial.add(h64(desc, name, t, pos))
                        res.hist['nontrivial'] += 1
                        if len(res.samples) < 2:
                            res.sample({'grammar': desc[-400:], 'entry': name, 'input': repr(t), 'pos': pos,
                                        'value': peg.canon(r[0])[:200],
                                        'spans': [o.span for o in peg.objects_of(r[0]) if o.span][:6]})
                    if bad:
                        res.mismatch({'g': peg.g_to_dict(diff.reachable_subgrammar(g, name).copy(ignores=g.ignores)),
                                      'entry': name, 'text': t, 'pos': pos})
                        if got[0] == 'HANG':
                            return
        try:
            prop()
        except runner.StopTask:
            pass
        return res

    def replay(self, case):
        g = peg.g_from_dict(case['g'])
        desc = peg.render(g)
        mod, err = sut.compile_grammar(desc)
        if mod is None:
            return {'bucket': 'compile', 'got': list(err), 'grammar': desc}
        t, pos, name = case['text'], case['pos'], case['entry']
        try:
            r = peg.Interp(g, t).run_rule(name, pos)
        except (peg.StepLimit, peg.RefError, RecursionError, KeyError):
            return None
        if r is None:
            return None
        got, raw = diff.run_confirmed(mod, name, t, pos=pos, raw=True)
        exp = sut.expected(r, t)
        if not sut.agrees(exp, got):
            return {'bucket': 'outcome:%s->%s' % (exp[0], got[0] if got[0] != 'EXC' else 'EXC:' + got[1]),
                    'expected': list(exp), 'got': list(got), 'grammar': desc, 'entry': name, 'input': repr(t), 'pos': pos}
        val = raw.partial_result if got[0] == 'PARTIAL' else raw
        bt = any(x[0] in ('backtrack', 'expect', 'expectnot') for rr in g.rules for e in peg.rule_exprs(rr) for x in peg.walk(e))
        bad = compare_spans(r[0], val, t, not bt)
        if bad is None:
            return None
        return {'bucket': 'span:' + bad.split(':')[0], 'detail': bad, 'grammar': desc, 'entry': name, 'input': repr(t),
                'pos': pos, 'reference_spans': [o.span for o in peg.objects_of(r[0])],
                'sourcer_spans': [repr(o._metadata.position_info) for o in peg.objects_of(val)][:8]}

    def shrink(self, case, still_fails, deadline):
        def ok(c):
            g = peg.g_from_dict(c['g'])
            if c['entry'] not in g.ruledict() or not (0 <= c['pos'] <= len(c['text'])):
                return False
            return diff.wellformed(g) and still_fails(c)
        return shrink.shrink_case(case, ok, deadline)

    def describe(self, case):
        g = peg.g_from_dict(case['g'])
        return {'grammar': peg.render(g), 'entry': case['entry'], 'input': repr(case.get('text')), 'pos': case['pos']}

    def selftest(self):
        from selftest import test_peg
        test_peg.run()


if __name__ == '__main__':
    sys.exit(runner.main(C10()))
