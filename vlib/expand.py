"""AST-level expansion of (non-recursive) template calls - C06's second oracle - and
tokenizer-based renaming of names inside inline Python (also used by C20)."""
import io
import re
import tokenize
import itertools

from . import peg


class CannotExpand(Exception):
    pass


def rename_py(src, mapping):
    """Rename NAME tokens of inline Python according to `mapping` (attribute names after a
    dot and keyword-argument names are left alone)."""
    if not mapping:
        return src
    out = []
    prev = None
    try:
        toks = list(tokenize.generate_tokens(io.StringIO(src).readline))
    except (tokenize.TokenError, IndentationError, SyntaxError):
        raise CannotExpand('cannot tokenize %r' % src)
    result = []
    last_end = (1, 0)
    lines = src.split('\n')
    for i, tok in enumerate(toks):
        if tok.type in (tokenize.ENDMARKER, tokenize.NEWLINE, tokenize.NL):
            continue
        # preserve the original spacing between tokens
        (sr, sc), (er, ec) = tok.start, tok.end
        if sr == last_end[0]:
            result.append(lines[sr - 1][last_end[1]:sc])
        else:
            result.append('\n' * (sr - last_end[0]) + lines[sr - 1][:sc])
        text = tok.string
        if tok.type == tokenize.NAME and text in mapping and not (prev is not None and prev.string == '.'):
            nxt = next((t for t in toks[i + 1:] if t.type not in (tokenize.NL, tokenize.NEWLINE)), None)
            is_kwarg = False
            if nxt is not None and nxt.string == '=' and prev is not None and prev.string in ('(', ','):
                is_kwarg = True
            if not is_kwarg:
                text = mapping[text]
        result.append(text)
        last_end = (er, ec)
        prev = tok
    return ''.join(result)


def py_names(src):
    return set(peg._IDENT.findall(src))


_fresh = itertools.count(1)


def fresh(base='q'):
    return '%s%d_' % (base, next(_fresh))


def _rename_bound(b, mapping):
    if b is None or isinstance(b, int):
        return b
    if b.startswith('`'):
        return '`%s`' % rename_py(b[1:-1], mapping)
    return mapping.get(b, b)


def alpha(n, mapping):
    """Rename local names (refs, let names, symbolic bounds, inline Python)."""
    k = n[0]
    if k == 'ref':
        return ('ref', mapping.get(n[1], n[1]))
    if k == 'py':
        return ('py', rename_py(n[1], mapping))
    if k == 'let':
        return ('let', mapping.get(n[1], n[1]), alpha(n[2], mapping), alpha(n[3], mapping))
    if k == 'rep':
        return ('rep', alpha(n[1], mapping), _rename_bound(n[2], mapping), _rename_bound(n[3], mapping))
    kids = peg.children(n)
    if not kids:
        return n
    return peg.rebuild(n, [alpha(c, mapping) for c in kids])


def let_names(n):
    return {x[1] for x in peg.walk(n) if x[0] == 'let'}


def subst(n, pname, repl):
    k = n[0]
    if k == 'ref':
        return repl if n[1] == pname else n
    kids = peg.children(n)
    if not kids:
        return n
    return peg.rebuild(n, [subst(c, pname, repl) for c in kids])


def reads_value(n, pname):
    """Is `pname` read as a value (inline Python or symbolic bound) somewhere in n?"""
    for x in peg.walk(n):
        if x[0] == 'py' and pname in py_names(x[1]):
            return True
        if x[0] == 'rep':
            for b in (x[2], x[3]):
                if isinstance(b, str) and pname in py_names(b):
                    return True
    return False


def free_locals(n, locals_):
    out = set()
    for x in peg.walk(n):
        if x[0] == 'ref' and x[1] in locals_:
            out.add(x[1])
        if x[0] == 'py':
            out |= py_names(x[1]) & locals_
        if x[0] == 'rep':
            for b in (x[2], x[3]):
                if isinstance(b, str):
                    out |= py_names(b) & locals_
    return out


def expand_grammar(g):
    rd = g.ruledict()
    templates = {r[1]: r for r in g.rules if r[2] is not None}
    # recursive templates: reach themselves through calls
    calls = {}
    for name, r in templates.items():
        cs = set()
        for e in peg.rule_exprs(r):
            for x in peg.walk(e):
                if x[0] == 'call':
                    cs.add(x[1])
        calls[name] = cs
    recursive = set()
    for name in templates:
        seen, todo = set(), list(calls[name])
        while todo:
            t = todo.pop()
            if t == name:
                recursive.add(name)
                break
            if t in seen or t not in calls:
                continue
            seen.add(t)
            todo.extend(calls[t])
    # a template that calls a recursive template stays expandable; recursive ones are kept
    new_classes = []
    counter = itertools.count(1)

    def bind_args(r, n):
        params = r[2]
        _, _, args, kwargs = n
        if len(args) + len(kwargs) != len(params):
            raise CannotExpand('arity')
        m = dict(zip(params, args))
        for kw, a in kwargs:
            m[kw] = a
        return [(p, m[p]) for p in params]

    def ex(n, L):
        k = n[0]
        if k == 'let':
            return ('let', n[1], ex(n[2], L), ex(n[3], L | {n[1]}))
        if k != 'call':
            kids = peg.children(n)
            if not kids:
                return n
            return peg.rebuild(n, [ex(c, L) for c in kids])
        tname = n[1]
        args = [ex(a, L) for a in n[2]]
        kwargs = [(kw, ex(a, L)) for kw, a in n[3]]
        orig = n
        n = ('call', tname, args, kwargs)
        r = templates.get(tname)
        if r is None:
            raise CannotExpand('call of unknown template %r' % tname)
        if tname in recursive:
            return n
        pairs = bind_args(r, n)
        # An argument that was a CALL and has been expanded to bare inline Python is still a parsing
        # expression (it is parsed where the body uses the parameter), not a value argument.
        was_value = {p_: a_[0] == 'py' for p_, a_ in bind_args(r, orig)}
        # Such a call is kept as it is: let-binding the Python text would turn it into a value.
        if any(a_[0] == 'py' and not was_value.get(p_, True) for p_, a_ in pairs):
            return ('call', tname, list(orig[2]), list(orig[3]))
        if r[0] == 'class':
            if any(free_locals(a, L) for _, a in pairs):
                return n          # needs call-site locals: keep the call
            cname = '%s__x%d' % (tname, next(counter))
            mapping = {p: fresh('p') for p, _ in pairs}
            members = [(mk, mn, (alpha(e, mapping) if e is not None else e)) for mk, mn, e in r[3]]
            pre = []
            for p, a in pairs:
                p2 = mapping[p]
                members, lets = apply_arg_members(members, p2, a)
                pre.extend(lets)
            members = pre + members
            done = []
            L2 = set()
            for mk, mn, e in members:
                if mk == 'requires' and e[0] == 'py':
                    done.append((mk, mn, e))
                else:
                    done.append((mk, mn, ex(e, set(L2))))
                if mn:
                    L2.add(mn)
            new_classes.append(('class', cname, None, done))
            return ('ref', cname)
        body = r[3]
        # hygiene: a global (rule) name used by the body must not be captured by a call-site local
        body_names = {x[1] for x in peg.walk(body) if x[0] in ('ref', 'call')} - set(r[2]) - let_names(body)
        if body_names & set(L):
            return n
        mapping = {p: fresh('p') for p, _ in pairs}
        for x in let_names(body):
            mapping[x] = fresh('v')
        body = alpha(body, mapping)
        wraps = []
        for p, a in pairs:
            p2 = mapping[p]
            body, w = apply_arg(body, p2, a, L)
            wraps.extend(w)
        for name_, valsrc in reversed(wraps):
            body = ('let', name_, ('py', valsrc), body)
        return ex(body, L)

    def apply_arg(body, p2, a, L):
        """Returns (body', [(let name, python source)])."""
        if a[0] in ('lit', 'byte'):
            w = []
            if reads_value(body, p2):
                v = a[1]
                if a[0] == 'lit' and g.mode == 'bytes' and isinstance(v, str):
                    v = v.encode('latin-1')
                w.append((p2, repr(v)))
            # value uses keep the name, parser uses get the literal
            return subst_parser_uses(body, p2, a), w
        if a[0] == 'py':
            return body, [(p2, a[1])]
        if a[0] == 'ref' and a[1] in L:
            return alpha(body, {p2: a[1]}), []
        return subst(body, p2, a), []

    def subst_parser_uses(body, p2, a):
        # Ref nodes that stand in argument position of an inner call keep the literal too
        return subst(body, p2, a)

    def apply_arg_members(members, p2, a):
        lets = []
        if a[0] in ('lit', 'byte'):
            if any(reads_value(e, p2) for _, _, e in members):
                v = a[1]
                if a[0] == 'lit' and g.mode == 'bytes' and isinstance(v, str):
                    v = v.encode('latin-1')
                lets.append(('let', p2, ('py', repr(v))))
            members = [(mk, mn, subst(e, p2, a)) for mk, mn, e in members]
        elif a[0] == 'py':
            lets.append(('let', p2, a))
        else:
            members = [(mk, mn, subst(e, p2, a)) for mk, mn, e in members]
        return members, lets

    out = []
    for r in g.rules:
        L = set(r[2] or [])
        if r[0] == 'rule':
            out.append(('rule', r[1], r[2], ex(r[3], L)))
        else:
            ms = []
            for mk, mn, e in r[3]:
                if mk == 'requires' and e[0] == 'py':
                    ms.append((mk, mn, e))
                else:
                    ms.append((mk, mn, ex(e, L)))
                if mn:
                    L = L | {mn}
            out.append(('class', r[1], r[2], ms))
    # drop templates that are no longer called
    still = set()
    for r in out + new_classes:
        for e in peg.rule_exprs(r):
            for x in peg.walk(e):
                if x[0] == 'call':
                    still.add(x[1])
    changed = True
    while changed:
        changed = False
        for r in out:
            if r[1] in still and r[2] is not None:
                for e in peg.rule_exprs(r):
                    for x in peg.walk(e):
                        if x[0] == 'call' and x[1] not in still:
                            still.add(x[1])
                            changed = True
    out = [r for r in out if r[2] is None or r[1] in still]
    # specialised classes go right before the first rule that needs them (anywhere is fine)
    start = [r for r in out if r[1].lower() == 'start']
    rest = [r for r in out if r[1].lower() != 'start']
    return g.copy(rules=rest + new_classes + start)


_SPECIALISED = re.compile(r'<(\w+?)__x\d+([ >])')


def normalise(outcome):
    """Outcome with specialised class names mapped back and the failure index dropped."""
    if outcome[0] == 'FAIL':
        return ('FAIL',)
    if outcome[0] in ('OK', 'PARTIAL'):
        return (outcome[0], _SPECIALISED.sub(r'<\1\2', outcome[1]), outcome[2])
    return tuple(outcome[:2])
