"""C11 - behaviour does not depend on how the grammar module was produced.
Differential across variants of one description: {unnamed, named} x {include_source off, on} x
{in-memory module, emitted _source_code imported by a separate interpreter started with -I -S
whose sys.path holds only the standard library and a temp directory} x compiled twice.
DESIGN.md 4/C11."""
import os
import sys
import json
import shutil
import tempfile
import subprocess

from vlib import runner, peg, gens, gens_rich, sut, diff
from vlib.runner import Check, Result, h64
from checks import c02, c17

SERVER = r'''
import sys, json, importlib
tmpdir = sys.argv[1]
sys.path.insert(0, tmpdir)
# only the standard library and the temp directory may be importable
assert not any('site-packages' in p or p.startswith('/repo') or p.startswith('/verif') for p in sys.path), sys.path

def is_obj(v):
    return hasattr(v, '_metadata') and hasattr(v, '_fields')

def canon(v):
    out = []
    stack = [v]
    class Tok:
        def __init__(self, s): self.s = s
    while stack:
        x = stack.pop()
        if type(x) is Tok:
            out.append(x.s); continue
        if x is None: out.append('N')
        elif x is True: out.append('T')
        elif x is False: out.append('F')
        elif is_obj(x):
            out.append('<' + type(x).__name__)
            items = []
            for fn in x._fields:
                items.append(Tok(' ' + fn + '=')); items.append(getattr(x, fn))
            items.append(Tok('>'))
            stack.extend(reversed(items))
        elif isinstance(x, int): out.append('i%d' % x)
        elif isinstance(x, float): out.append('f%r' % x)
        elif isinstance(x, str): out.append('s' + str.__repr__(str(x)))
        elif isinstance(x, (bytes, bytearray)): out.append('y' + repr(bytes(x)))
        elif isinstance(x, (list, tuple)):
            out.append('[' if isinstance(x, list) else '(')
            items = []
            for i, c in enumerate(x):
                if i: items.append(Tok(','))
                items.append(c)
            items.append(Tok(']' if isinstance(x, list) else ')'))
            stack.extend(reversed(items))
        elif isinstance(x, dict):
            out.append('{')
            items = []
            for i, (kk, vv) in enumerate(x.items()):
                if i: items.append(Tok(','))
                items.append(kk); items.append(Tok(':')); items.append(vv)
            items.append(Tok('}'))
            stack.extend(reversed(items))
        else: out.append('?' + type(x).__name__)
    return ''.join(out)

def run(mod, entry, text):
    f = mod.parse if entry is None else getattr(mod, entry).parse
    try:
        return ['OK', canon(f(text)), len(text)]
    except mod.PartialParseError as e:
        return ['PARTIAL', canon(e.partial_result), e.last_position.index]
    except mod.ParseError as e:
        return ['FAIL', e.position.index]
    except RecursionError:
        return ['EXC', 'RecursionError']
    except Exception as e:
        return ['EXC', type(e).__name__, str(e)[:200]]

for line in sys.stdin:
    req = json.loads(line)
    try:
        mod = importlib.import_module(req['module'])
        loaded = sorted(m for m in sys.modules if m.split('.')[0] in ('outsourcer', 'sourcer', 'hypothesis'))
        texts = [t.encode('latin-1') if req['bytes'] else t for t in req['texts']]
        res = {'ok': True, 'loaded': loaded, 'out': [[run(mod, e, t) for t in texts] for e in req['entries']]}
    except BaseException as e:
        res = {'ok': False, 'error': type(e).__name__ + ': ' + str(e)[:300]}
    sys.stdout.write(json.dumps(res) + '\n')
    sys.stdout.flush()
'''


class Standalone:
    def __init__(self):
        self.dir = tempfile.mkdtemp(prefix='vfc11_')
        path = os.path.join(self.dir, '_server.py')
        with open(path, 'w') as f:
            f.write(SERVER)
        env = {'PATH': '/usr/bin:/bin'}
        self.proc = subprocess.Popen([sys.executable, '-I', '-S', path, self.dir], stdin=subprocess.PIPE,
                                     stdout=subprocess.PIPE, stderr=subprocess.PIPE, text=True, env=env, cwd=self.dir)

    def save(self, modname, source):
        path = os.path.join(self.dir, *modname.split('.')) + '.py'
        os.makedirs(os.path.dirname(path), exist_ok=True)
        with open(path, 'w') as f:
            f.write(source)

    def ask(self, modname, entries, texts, is_bytes):
        req = {'module': modname, 'entries': entries, 'bytes': is_bytes,
               'texts': [t.decode('latin-1') if isinstance(t, bytes) else t for t in texts]}
        try:
            self.proc.stdin.write(json.dumps(req) + '\n')
            self.proc.stdin.flush()
            line = self.proc.stdout.readline()
        except (BrokenPipeError, OSError):
            line = ''
        if not line:
            err = ''
            try:
                err = self.proc.stderr.read()[-400:]
            except Exception:
                pass
            return {'ok': False, 'error': 'stand-alone interpreter died: ' + err}
        return json.loads(line)

    def close(self):
        try:
            self.proc.stdin.close()
            self.proc.wait(10)
        except Exception:
            self.proc.kill()
        shutil.rmtree(self.dir, ignore_errors=True)


def norm(o):
    """Outcome as compared across variants: class, value, position."""
    if o[0] == 'OK':
        return ['OK', o[1], o[2]]
    if o[0] == 'PARTIAL':
        return ['PARTIAL', o[1], o[2]]
    if o[0] == 'FAIL':
        return ['FAIL', o[1]]
    return list(o[:2])


def strip_messages(rows):
    """The separate interpreter reports exception messages too (useful when reading a log); variants are
    compared by exception class, as the in-memory ones are."""
    return [[o[:2] if o and o[0] == 'EXC' else o for o in row] for row in rows]


def features(g, src):
    f = set()
    ks = peg.kinds(g)
    if 'call' in ks:
        f.add('template-call')
    if g.ignores:
        f.add('ignore')
    if 'class' in ks:
        f.add('class')
    if '(yield from _parse_function_' in src:
        f.add('spilled-helper')
    if '_ParseFunction(_parse_function_' in src or '_ParseFunction(_ctx' in src:
        f.add('captured-argument')
    if 'optable' in ks:
        f.add('operator-table')
    return f


def variants_outcomes(g, entries, texts, sa, extends_parent=None):
    """Returns (dict variant -> outcomes | error string, source text)."""
    out = {}
    name = sut.fresh_name('vfc11n_')
    descs = {'unnamed': peg.render(g, header=False), 'named': peg.render(g.copy(header=name))}
    mods = {}
    src = ''
    try:
        for label, desc, inc in (('unnamed', descs['unnamed'], False), ('unnamed-again', descs['unnamed'], False),
                                 ('unnamed+source', descs['unnamed'], True), ('named', descs['named'], False),
                                 ('named+source', descs['named'], True)):
            m, err = sut.compile_grammar(desc, include_source=inc)
            if m is None:
                out[label] = 'compile:%s' % (err[1] if len(err) > 1 else err[0])
            else:
                mods[label] = m
        for label, m in mods.items():
            rows = []
            for e in entries:
                fn = sut.entry(m, e)
                rows.append([norm(sut.run(m, None, t, budget=diff.QUICK_BUDGET, fn=fn)) for t in texts])
            out[label] = rows
        # emitted source executed on its own
        for label in ('unnamed+source', 'named+source'):
            if label in mods and not isinstance(getattr(mods[label], '_source_code', None), str):
                out[label] = 'include_source=True but the module has no _source_code'
                del mods[label]
        if 'unnamed+source' in mods:
            src = mods['unnamed+source']._source_code
            fname = sut.fresh_name('vfsa')
            sa.save(fname, src)
            r = sa.ask(fname, entries, texts, g.mode == 'bytes')
            out['standalone-unnamed'] = strip_messages(r['out']) if r.get('ok') else 'standalone:' + r.get('error', '?')
            if r.get('ok') and r.get('loaded'):
                out['standalone-unnamed'] = 'standalone imported third-party modules: %s' % r['loaded']
        if 'named+source' in mods:
            sa.save(name, mods['named+source']._source_code)
            r = sa.ask(name, entries, texts, g.mode == 'bytes')
            out['standalone-named'] = strip_messages(r['out']) if r.get('ok') else 'standalone:' + r.get('error', '?')
            # a grammar that extends the named one, emitted and executed on its own next to its parent
            dname = sut.fresh_name('vfc11d_')
            dm, derr = sut.compile_grammar('grammar %s extends %s\nExtraRuleOfDerived = "zz"\n' % (dname, name),
                                           include_source=True)
            if dm is not None and not isinstance(getattr(dm, '_source_code', None), str):
                out['derived'] = 'include_source=True but the derived module has no _source_code'
            elif dm is not None:
                rows = []
                for e in entries:
                    fn = sut.entry(dm, e)
                    rows.append([norm(sut.run(dm, None, t, budget=diff.QUICK_BUDGET, fn=fn)) for t in texts])
                out['derived'] = rows
                sa.save(dname, dm._source_code)
                r = sa.ask(dname, entries, texts, g.mode == 'bytes')
                out['standalone-derived'] = strip_messages(r['out']) if r.get('ok') else 'standalone:' + r.get('error', '?')
                sut.forget(dname)
            else:
                out['derived'] = 'compile:%s' % (derr[1] if len(derr) > 1 else derr[0])
            # the parent as a module made from its EMITTED source (what a project that ships generated parsers
            # has under that name), and a child compiled on top of it
            import types
            saved = sys.modules.get(name)
            try:
                pm = types.ModuleType(name)
                exec(compile(mods['named+source']._source_code, name + '.py', 'exec'), pm.__dict__)
                sys.modules[name] = pm
                dn = sut.fresh_name('vfc11e_')
                dm, derr = sut.compile_grammar('grammar %s extends %s\nExtraRuleOfDerived = "zz"\n' % (dn, name))
                if dm is None:
                    out['derived-on-emitted-parent'] = 'compile:%s' % (derr[1] if len(derr) > 1 else derr[0])
                else:
                    rows = []
                    for e in entries:
                        fn = sut.entry(dm, e)
                        rows.append([norm(sut.run(dm, None, t, budget=diff.QUICK_BUDGET, fn=fn)) for t in texts])
                    out['derived-on-emitted-parent'] = rows
                    sut.forget(dn)
            except Exception as e:
                out['derived-on-emitted-parent'] = 'emitted parent source does not execute: %s' % type(e).__name__
            finally:
                if saved is not None:
                    sys.modules[name] = saved
            # a derived grammar with an (anonymous) ignore statement of its own next to the inherited ones:
            # the same two descriptions, with and without include_source
            if g.ignores:
                sep = b';' if g.mode == 'bytes' else ';'
                texts2 = texts[:40] + [t[:1] + sep + t[1:] + sep for t in texts[:40]]
                for inc in (False, True):
                    dn = sut.fresh_name('vfc11i_')
                    dm, derr = sut.compile_grammar('grammar %s extends %s\nignore %s\nExtraRuleOfDerived = "zz"\n'
                                                   % (dn, name, "b';'" if g.mode == 'bytes' else "';'"), include_source=inc)
                    label = 'derived-ignore' + ('+source' if inc else '')
                    if dm is None:
                        out[label] = 'compile:%s' % (derr[1] if len(derr) > 1 else derr[0])
                        continue
                    rows = []
                    for e in entries:
                        fn = sut.entry(dm, e)
                        rows.append([norm(sut.run(dm, None, t, budget=diff.QUICK_BUDGET, fn=fn)) for t in texts2])
                    out[label] = rows
                    sut.forget(dn)
    finally:
        sut.forget(name)
    return out, src


def compare(out):
    """None or (variant, description) of the first disagreement with the 'unnamed' variant."""
    base = out.get('unnamed')
    for label, rows in out.items():
        if label == 'unnamed':
            continue
        if label in ('derived', 'standalone-derived', 'derived-on-emitted-parent'):
            ref = out.get('named')
        elif label == 'derived-ignore':
            continue
        elif label == 'derived-ignore+source':
            ref = out.get('derived-ignore')
        else:
            ref = base
        if isinstance(rows, str) or isinstance(ref, str):
            if rows != ref:
                return label, 'variant %s: %s vs %s' % (label, rows if isinstance(rows, str) else 'ok', ref if isinstance(ref, str) else 'ok')
            continue
        if rows != ref:
            for ei, (ra, rb) in enumerate(zip(rows, ref)):
                for ti, (a, b) in enumerate(zip(ra, rb)):
                    if a != b:
                        return label, 'entry #%d input #%d: %s vs %s' % (ei, ti, a, b)
            return label, 'shape'
    return None


class C11(Check):
    id = 'C11'
    technique = 'PBT: hypothesis union generator (rich, core+ignore, operator tables, deep nesting); differential across 10 production variants incl. emitted source imported by a separate -I -S interpreter'
    rule = ('cases = (description, entry, input) compared across variants: unnamed, unnamed compiled again, unnamed with '
            'include_source, named, named with include_source, the emitted source of the unnamed and of the named variant saved '
            'to a file and imported by a separate interpreter started with -I -S (sys.path = standard library + temp directory, '
            'checked), a grammar that extends the named one (in memory and as emitted source next to its parent), a grammar that extends it and adds an anonymous ignore statement (with and without include_source). Descriptions '
            'from the union generator: rich grammars (templates with captured names, classes with parameters, let, where), core '
            'grammars with ignore (text and bytes), operator tables, nesting deep enough to be split into helper functions. '
            'All variants must give the same outcome class, value and position for every entry and all inputs of length <= 3 '
            'plus longer ones. Non-trivial iff the description contains a construct whose generated code differs between the '
            'conventions (template call, captured argument, class, helper-function split, ignore, operator table); distinct by '
            '(description, entry, input).')
    assumptions = ['values are compared by canonical structure (class names, field order, leaf types), errors by class and index']
    budget_quick = 170
    budget_thorough = 1500

    def tasks(self, tier, seed):
        n = 16 if tier == 'quick' else 64
        per = 14 if tier == 'quick' else 90
        return [('hyp', seed * 1000003 + s, per) for s in range(n)]

    def run_task(self, task):
        from hypothesis import given, settings, seed, HealthCheck, Phase, strategies as st
        res = Result()
        _, s, n = task
        sa = Standalone()

        @st.composite
        def grammars(draw):
            m = draw(st.integers(0, 6))
            if m <= 2:
                # (bytes grammars too: literals handed to parameterised rules are wrapped differently there)
                return draw(gens_rich.rich_grammar(nrules=3, depth=3, mode='bytes' if draw(st.integers(0, 3)) == 0 else 'text')), 'ab12'
            if m == 3:
                g = draw(gens.core_grammar(nrules=4, depth=4, mode=draw(st.sampled_from(['text', 'bytes']))))
                return g.copy(ignores=[(draw(st.sampled_from([None, 'Sp'])), ('rx', ' +'))]), 'ab '
            if m == 4:
                rows, operand_kind, use_ignore, mix = draw(c02.table_strategy())
                return c02.make_grammar(rows, operand_kind, use_ignore, mix), ''.join(c02.token_alphabet(rows, operand_kind, use_ignore, mix))
            inner = draw(st.sampled_from(['ref', 'call', 'cls', 'param', 'lit']))
            wrapper = draw(st.sampled_from(['seq1', 'plus', 'failchoice', 'mix', 'sep', 'optseq']))
            g, text, v = c17.build(inner, wrapper, draw(st.integers(9, 30)), draw(st.booleans()), False, draw(st.integers(1, 50)))
            return g, 'T aS'

        @seed(s)
        @settings(max_examples=n, database=None, deadline=None, phases=[Phase.generate],
                  suppress_health_check=list(HealthCheck), report_multiple_bugs=False)
        @given(grammars(), st.data())
        def prop(ga, data):
            g, alpha = ga
            alpha = ''.join(sorted(set(alpha)))[:6] or 'ab'
            # a line break is in every alphabet: error positions on a newline character are where
            # line/column bookkeeping (and anything guarded by `assert`, which the in-memory
            # compilation strips) behaves specially
            texts = gens.all_inputs(alpha[:3] + '\n', 3) + data.draw(st.lists(st.text(alphabet=alpha + '\n\n', min_size=1, max_size=9),
                                                                             min_size=15, max_size=15))
            if g.mode == 'bytes':
                texts = [t.encode('latin-1') for t in texts]
            if runner.over_budget(res):
                return
            entries = [None] + [e for e in gens_rich.entry_points(g) if e[0] in 'RKFsXEC'][:4]
            out, src = variants_outcomes(g, entries, texts, sa)
            res.evals += len(entries) * len(texts) * len(out)
            res.hist['descriptions'] += 1
            feats = features(g, src)
            for f in feats:
                res.hist['feature_' + f] += 1
            bad = compare(out)
            if feats:
                for e in entries:
                    for t in texts[::4]:
                        res.nontrivial.add(h64(peg.render(g)[:3000], e, t))
                if len(res.samples) < 1:
                    res.sample({'description_tail': peg.render(g)[-300:], 'features': sorted(feats), 'variants': sorted(out)})
            if bad:
                res.mismatch({'g': peg.g_to_dict(g), 'entries': entries, 'texts': texts[:60]})
        try:
            prop()
        finally:
            sa.close()
        return res

    def replay(self, case):
        g = peg.g_from_dict(case['g'])
        sa = Standalone()
        try:
            out, src = variants_outcomes(g, case['entries'], case['texts'], sa)
        finally:
            sa.close()
        bad = compare(out)
        if bad is None:
            return None
        return {'bucket': 'variant-differs:%s' % bad[0], 'detail': bad[1][:600], 'grammar': peg.render(g)[-1500:]}

    def shrink(self, case, still_fails, deadline):
        import time
        from vlib import shrink
        best = dict(case)
        # fewer texts first
        ts = list(best['texts'])
        while len(ts) > 1 and time.time() < deadline:
            half = ts[:len(ts) // 2]
            other = ts[len(ts) // 2:]
            if still_fails(dict(best, texts=half)):
                ts = half
            elif still_fails(dict(best, texts=other)):
                ts = other
            else:
                break
            best = dict(best, texts=ts)

        def ok(c):
            gg = peg.g_from_dict(c['g'])
            rd = gg.ruledict()
            if not gg.start_name() or any(e is not None and e not in rd for e in c['entries']):
                return False
            return diff.wellformed(gg) and still_fails(c)
        return shrink.shrink_case(best, ok, deadline, text_keys=())

    def describe(self, case):
        return {'grammar': peg.render(peg.g_from_dict(case['g'])), 'entries': case['entries'], 'texts': [repr(t) for t in case['texts'][:20]]}


if __name__ == '__main__':
    sys.exit(runner.main(C11()))
