"""C17 - nesting depth never changes meaning or exhausts the Python stack.
Exhaustive sweep inner x wrapper x depth x {ignore} x {named}; deep input recursion.
Oracle: closed-form expected value of the transparent wrappers (and the reference interpreter
at moderate depths); any RecursionError/TypeError/SyntaxError is a mismatch.  DESIGN.md 4/C17."""
import sys
import random

from vlib import runner, peg, sut, diff
from vlib.runner import Check, Result, h64

WRAPPERS = ['seq1', 'optseq', 'right', 'failchoice', 'let', 'where', 'apply', 'sep', 'plus', 'opt', 'expect', 'mix']
INNERS = ['lit', 'ref', 'call', 'cls', 'param', 'bound', 'count', 'letcount', 'letpy', 'letwhere']


def wrap_once(kind, x):
    if kind == 'seq1':
        return ('seq', [x])
    if kind == 'optseq':
        return ('seq', [('opt', ('lit', 'S')), x])
    if kind == 'right':
        return ('right', ('lit', ''), x)
    if kind == 'failchoice':
        return ('choice', [('fail', None), ('seq', [x])])
    if kind == 'let':
        return ('let', 'w', ('py', '0'), x)
    if kind == 'where':
        return ('where', x, ('py', 'lambda _: True'))
    if kind == 'apply':
        return ('apply', x, ('py', 'lambda v: v'))
    if kind == 'sep':
        return ('sep', x, ('lit', ','), False, False, True, False)
    if kind == 'plus':
        return ('right', ('opt', ('lit', 'a')), ('rep', x, 1, None))
    if kind == 'opt':
        return ('opt', x)
    if kind == 'expect':
        return ('left', x, ('expectnot', ('lit', 'Q')))
    raise ValueError(kind)


def value_once(kind, v):
    if kind in ('seq1', 'failchoice', 'sep', 'plus'):
        return [v]
    if kind == 'optseq':
        return [None, v]
    return v


def layers_for(wrapper, depth, seed):
    if wrapper != 'mix':
        return [wrapper] * depth
    rnd = random.Random(seed * 7919 + depth)
    out = []
    nullable = False
    for _ in range(depth):
        k = rnd.choice(WRAPPERS[:-1])
        if nullable and k == 'plus':
            k = 'seq1'        # (x?)+ would repeat something that can match nothing
        if k in ('opt', 'sep'):
            nullable = True      # x? and x // "," can match nothing
        out.append(k)
    return out


def build(inner, wrapper, depth, ign, named, seed):
    """Returns (G, text, expected value object, entry)."""
    layers = layers_for(wrapper, depth, seed)
    nullable_inner = inner in ('bound',)
    if nullable_inner:
        layers = [k if k != 'plus' else 'seq1' for k in layers]
    rules = [('rule', 'R', None, ('lit', 'T')), ('rule', 'P', ['x'], ('ref', 'x')),
             ('class', 'K', None, [('field', 'v', ('lit', 'T'))])]
    text = 'T'
    if inner == 'lit':
        core, val = ('lit', 'T'), 'T'
    elif inner == 'ref':
        core, val = ('ref', 'R'), 'T'
    elif inner == 'call':
        core, val = ('call', 'P', [('lit', 'T')], []), 'T'
    elif inner == 'cls':
        core, val = ('ref', 'K'), peg.Obj('K', [('v', 'T')])
    elif inner == 'param':
        core, val = ('ref', 'x'), 'T'
    elif inner == 'bound':
        core, val = ('py', 'n'), 'T'
    elif inner == 'count':
        core, val = ('rep', ('lit', 'T'), 'n', 'n'), ['T']
        text = '1T'
    elif inner == 'letcount':
        # binding and use TOGETHER at the bottom: the let still fits where its body may not
        core, val = ('let', 'n', ('apply', ('rx', '[0-9]'), ('py', 'int')), ('rep', ('lit', 'T'), 'n', 'n')), ['T']
        text = '1T'
    elif inner == 'letpy':
        core, val = ('let', 'n', ('lit', 'T'), ('py', 'n')), 'T'
    elif inner == 'letwhere':
        core, val = ('let', 'n', ('lit', 'T'), ('where', ('ref', 'R'), ('py', 'lambda v: v == n'))), 'T'
        text = 'TT'
    e = core
    v = val
    for k in layers:
        e = wrap_once(k, e)
        v = value_once(k, v)
    if inner == 'param':
        rules.append(('rule', 'Q', ['x'], e))
        e = ('call', 'Q', [('lit', 'T')], [])
    elif inner == 'bound':
        e = ('let', 'n', ('lit', 'T'), e)
    elif inner == 'count':
        e = ('let', 'n', ('apply', ('rx', '[0-9]'), ('py', 'int')), e)
    rules.append(('rule', 'start', None, e))
    ignores = [(None, ('lit', ' '))] if ign else []
    if ign:
        text = text + '  '
        if inner not in ('count', 'letcount'):
            text = ' ' + text
    g = peg.G(rules, ignores=ignores, header=(sut.fresh_name('vfc17_') if named else None))
    return g, text, v


def spilled(source):
    return '(yield from _parse_function_' in source or '= _parse_function_' in source.replace('def _parse_function_', '')


def run_case(case):
    """Returns (mismatch or None, info)."""
    # my own renderer/canonicaliser may recurse deeply; sourcer itself must run under the
    # interpreter's default recursion limit
    default_limit = 1000
    sys.setrecursionlimit(50000)
    try:
        g, text, v = build(case['inner'], case['wrapper'], case['depth'], case['ign'], case['named'], case.get('seed', 1))
        desc = peg.render(g)
    finally:
        sys.setrecursionlimit(default_limit)
    try:
        mod, err = sut.compile_grammar(desc, include_source=True, budget=60.0)
        if mod is None:
            return {'bucket': 'compile:%s' % (err[1] if len(err) > 1 else err[0]), 'got': list(err), 'case': case}, {}
        src = mod._source_code
        info = {'spilled': spilled(src), 'helpers': src.count('def _parse_function_')}
        got = sut.run(mod, None, text, budget=8.0)
        want = ('OK', peg.canon(v), len(text))
        if got != want:
            return {'bucket': 'nesting:%s' % (got[0] if got[0] != 'EXC' else 'EXC:' + got[1]), 'expected': list(want)[:1] + [want[1][:120]],
                    'got': [got[0]] + [str(x)[:160] for x in got[1:]], 'case': case, 'spilled': info['spilled'],
                    'grammar_tail': desc[-200:] if len(desc) < 2000 else '...'}, info
        # a failing input must fail cleanly through every layer (also through helper functions)
        bad_text = {'count': '1X', 'letcount': '1X', 'letwhere': 'TX'}.get(case['inner'], 'X')
        got2 = sut.run(mod, None, bad_text, budget=8.0)
        if got2[0] not in ('FAIL', 'PARTIAL'):
            return {'bucket': 'nesting-failing-input:%s' % (got2[0] if got2[0] != 'EXC' else 'EXC:' + got2[1]),
                    'got': [str(x)[:160] for x in got2], 'case': case, 'input': bad_text, 'spilled': info['spilled']}, info
        # the meaning of a reference does not depend on how deep it sits either: through a grammar that
        # extends this one and overrides R and K, the reference at the bottom means the override
        if g.header and case['inner'] in ('ref', 'cls', 'letwhere'):
            child = sut.fresh_name('vfc17c_')
            cdesc = "grammar %s extends %s\nR = 'U'\nclass K {\n    v: 'U'\n}\n" % (child, g.header)
            if case['ign']:
                cdesc += "ignore ';'\n"
            cmod, cerr = sut.compile_grammar(cdesc, budget=60.0)
            try:
                if cmod is None:
                    return {'bucket': 'extends-compile:%s' % (cerr[1] if len(cerr) > 1 else cerr[0]), 'got': list(cerr), 'case': case}, info
                ctext = text.replace('TT', 'TU') if case['inner'] == 'letwhere' else text.replace('T', 'U')
                cwant = want
                if case['inner'] != 'letwhere':
                    cwant = ('OK', want[1].replace("s'T'", "s'U'"), len(ctext))
                if case['ign']:
                    ctext = ctext.replace('  ', ' ;')
                gotc = sut.run(cmod, None, ctext, budget=8.0)
                if case['inner'] == 'letwhere':
                    # R = 'U' no longer equals the bound 'T': the predicate must now reject
                    ok = gotc[0] in ('FAIL', 'PARTIAL')
                else:
                    ok = gotc == cwant
                if not ok:
                    return {'bucket': 'nesting-through-extension:%s' % (gotc[0] if gotc[0] != 'EXC' else 'EXC:' + gotc[1]),
                            'expected': [cwant[0], cwant[1][:120]], 'got': [gotc[0]] + [str(x)[:160] for x in gotc[1:]],
                            'case': case, 'input': ctext, 'spilled': info['spilled']}, info
            finally:
                sut.forget(child)
        # reference interpreter as a second voice at moderate depth
        if case['depth'] <= 40:
            old = sys.getrecursionlimit()
            sys.setrecursionlimit(20000)
            try:
                r = peg.Interp(g, text).run_rule('start')
            except (peg.RefError, peg.StepLimit, RecursionError):
                r = 'skip'
            finally:
                sys.setrecursionlimit(old)
            if r != 'skip' and not sut.agrees(sut.expected(r, text), got):
                return {'bucket': 'harness:closed-form-and-reference-disagree', 'case': case}, info
        return None, info
    finally:
        if g.header:
            sut.forget(g.header)


# ---------------------------------------------------------------- deep input recursion

DEEP = {
    'plain': ('start = ["(", start?, ")"]', lambda n: '(' * n + ')' * n),
    'plain-ignore': ('ignore " "\nstart = ["(", start?, ")"]', lambda n: '( ' * n + ') ' * n),
    'class': ('class K {\n  open: "("\n  inner: K?\n  close: ")"\n}\nstart = K', lambda n: '(' * n + ')' * n),
    'template': ('N(d) = "(" >> N(`d+1`) << ")" | `d`\nstart = N(`0`)', lambda n: '(' * n + ')' * n),
    'template-parser-arg': ('N(p) = "(" >> N(p) << ")" | p\nstart = N("x")', lambda n: '(' * n + 'x' + ')' * n),
    'mixfix': ('E = "x" between {\n  mixfix: "(" >> E << ")"\n  left: "+"\n}\nstart = E', lambda n: '(' * n + 'x+x' + ')' * n),
    'named': ('grammar %s\nignore " "\nclass K {\n  open: "("\n  inner: K?\n  close: ")"\n}\nstart = K', lambda n: '(' * n + ' ' + ')' * n),
    'right-recursive-list': ('start = ["a", start] | "a"', lambda n: 'a' * n),
}


def check_deep(kind, n):
    desc, mk = DEEP[kind]
    name = None
    if kind == 'named':
        name = sut.fresh_name('vfc17d_')
        desc = desc % name
    try:
        mod, err = sut.compile_grammar(desc)
        if mod is None:
            return {'bucket': 'compile', 'got': list(err)}
        text = mk(n)
        try:
            with sut.timeout(300):
                v = mod.parse(text)
        except sut.Hang:
            return {'bucket': 'deep-input:HANG', 'kind': kind, 'n': n}
        except RecursionError:
            return {'bucket': 'deep-input:RecursionError', 'kind': kind, 'n': n}
        except MemoryError:
            return None      # depth is limited by memory only
        except Exception as e:
            return {'bucket': 'deep-input:%s' % type(e).__name__, 'detail': str(e)[:200], 'kind': kind, 'n': n}
        # iterative check of the result
        depth = 0
        if kind in ('plain', 'plain-ignore'):
            while isinstance(v, list) and len(v) == 3 and v[0] == '(' and v[2] == ')':
                depth += 1
                v = v[1]
            ok = depth == n and v is None
        elif kind in ('class', 'named'):
            while type(v).__name__ == 'K' and v.open == '(' and v.close == ')':
                depth += 1
                v = v.inner
            ok = depth == n and v is None
        elif kind == 'template':
            ok = v == n
        elif kind == 'template-parser-arg':
            ok = v == 'x'
        elif kind == 'mixfix':
            ok = type(v).__name__ == 'Infix' and v.left == 'x' and v.right == 'x'
        else:
            while isinstance(v, list) and len(v) == 2 and v[0] == 'a':
                depth += 1
                v = v[1]
            ok = depth == n - 1 and v == 'a'
        if not ok:
            return {'bucket': 'deep-input:wrong-result', 'kind': kind, 'n': n, 'depth_seen': depth}
        return None
    finally:
        if name:
            sut.forget(name)


class C17(Check):
    id = 'C17'
    technique = 'PBT: exhaustive sweep inner x transparent wrapper x depth (crossing every block-budget threshold) x ignore x named; deep input recursion; closed-form expected values + reference interpreter'
    rule = ('cases = (inner expression, wrapper kind, depth, ignore?, named?) and (recursive grammar, input depth); inner in '
            '{literal, rule reference, template call, class, template parameter, let-bound name, symbolic count}; wrapper in '
            '{[x], [Opt("S"), x], "" >> x, Fail() | [x], let w = `0` in x, x where .., x |> .., x // ",", "a"? >> (x)+, x?, '
            'x << ExpectNot("Q"), seeded mixtures}; depth 1..40 every, then 45..120 (quick) / 1..130 every (thorough); with and '
            'without an ignore declaration; with and without a grammar name. Expected value from the closed form of the '
            'transparent wrappers (reference interpreter as second voice up to depth 40). Deep inputs: 8 recursive grammars '
            '(plain rule, class, templates with value and parser arguments, ignore, named, mixfix row of an operator table, '
            'right-recursive list) at depth 3*10^4 (quick) / 10^5 (thorough), results checked iteratively. Non-trivial iff the '
            'compiled source (include_source) shows that code was split into a helper function that is called, or the input '
            'depth exceeds Python\'s recursion limit; distinct by case tuple.')
    assumptions = ['two-nodes-per-layer wrappers are swept to depth 100 only: known finding F29 (Grammar() itself is recursive)']
    budget_quick = 170
    budget_thorough = 1700
    exhaustive = True

    def depths(self, tier):
        if tier == 'thorough':
            return list(range(1, 131))
        return list(range(1, 41)) + [45, 50, 55, 60, 70, 80, 90, 100, 110, 120]

    def tasks(self, tier, seed):
        tasks = []
        ds = self.depths(tier)
        for inner in INNERS:
            for wrapper in WRAPPERS:
                for ign in (False, True):
                    for named in (False, True):
                        if tier == 'quick' and named and wrapper not in ('seq1', 'plus', 'failchoice', 'mix', 'let', 'sep'):
                            continue
                        tasks.append(('sweep', inner, wrapper, ign, named, ds, seed))
        for kind in DEEP:
            tasks.append(('deep', kind, 30000 if tier == 'quick' else 100000))
        random.Random(seed).shuffle(tasks)
        return tasks

    def run_task(self, task):
        res = Result()
        if task[0] == 'deep':
            _, kind, n = task
            res.evals += 1
            res.nontrivial.add(h64('deep', kind, n))
            m = check_deep(kind, n)
            res.sample({'deep_input': kind, 'depth': n, 'grammar': DEEP[kind][0][:120]})
            if m:
                res.mismatch({'deep': kind, 'n': n})
            return res
        _, inner, wrapper, ign, named, ds, seed = task
        fails = 0
        for d in ds:
            if wrapper in ('failchoice', 'mix') and d > 100:
                # known finding F29: Grammar() itself recurses (Expression.__str__, translator) and
                # hits Python's recursion limit at an AST depth of about 240
                res.excluded += 1
                continue
            if runner.time_left() < 0:
                res.truncated = True
                break
            case = {'inner': inner, 'wrapper': wrapper, 'depth': d, 'ign': ign, 'named': named, 'seed': seed}
            m, info = run_case(case)
            res.evals += 1
            if info.get('excluded'):
                res.excluded += 1
                continue
            if info.get('spilled'):
                res.nontrivial.add(h64(inner, wrapper, d, ign, named))
                res.hist['spilled'] += 1
                res.hist['spilled_inner_' + inner] += 1
                if len(res.samples) < 1:
                    res.sample(dict(case, helpers=info.get('helpers')))
            if m:
                res.mismatch(case)
                fails += 1
                if fails >= 3:
                    break
        return res

    def replay(self, case):
        if 'deep' in case:
            return check_deep(case['deep'], case['n'])
        m, info = run_case(case)
        if info.get('excluded') and case.get('force'):
            # witness of the known finding: run it anyway
            g, text, v = build(case['inner'], case['wrapper'], case['depth'], case['ign'], case['named'], case.get('seed', 1))
            mod, err = sut.compile_grammar(peg.render(g))
            got = sut.run(mod, None, text) if mod is not None else err
            want = ('OK', peg.canon(v), len(text))
            if got != want:
                return {'bucket': 'nesting:%s' % (got[0] if got[0] != 'EXC' else 'EXC:' + got[1]), 'got': list(got)[:3], 'case': case}
        return m

    def shrink(self, case, still_fails, deadline):
        if 'deep' in case:
            n = case['n']
            while n > 10 and still_fails({'deep': case['deep'], 'n': n // 2}):
                n //= 2
            return {'deep': case['deep'], 'n': n}
        best = dict(case)
        for key, val in (('named', False), ('ign', False)):
            c = dict(best)
            c[key] = val
            if still_fails(c):
                best = c
        lo = 1
        d = best['depth']
        while d > 1:
            c = dict(best)
            c['depth'] = d - 1
            if still_fails(c):
                best = c
                d -= 1
            else:
                break
        return best

    def describe(self, case):
        if 'deep' in case:
            return dict(case, grammar=DEEP[case['deep']][0])
        g, text, v = build(case['inner'], case['wrapper'], case['depth'], case['ign'], False, case.get('seed', 1))
        desc = peg.render(g)
        return dict(case, input=text, grammar=desc if len(desc) < 3000 else desc[:1500] + ' ... ' + desc[-300:])


if __name__ == '__main__':
    sys.exit(runner.main(C17()))
