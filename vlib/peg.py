"""Grammar AST, renderer to sourcer's DSL, well-formedness analysis and the reference
PEG interpreter (DESIGN.md Appendix A).  Independent of sourcer: nothing here imports it.

AST nodes are plain tuples (hashable after `freeze`, trivially shrinkable):

  ('lit', s)  ('ci', s)  ('rx', pattern)  ('byte', n)  ('ref', name)
  ('seq', [e..])  ('right', a, b)  ('left', a, b)  ('choice', [e..])
  ('opt', e)  ('rep', e, lo, hi)           lo/hi: int | None | str (symbolic, a bound name
                                           or inline python source wrapped as '`src`')
  ('expect', e)  ('expectnot', e)  ('skip', [e..])  ('longest', [e..])
  ('backtrack', n)  ('fail', msg|None)
  ('sep', e, s, keep, trailer, empty, req)
  ('let', x, a, b)  ('where', e, p)  ('apply', e, f)  ('applyl', f, e)  ('py', src)
  ('call', name, [args], [(kw, arg)..])
  ('optable', operand, [(assoc, [ops..])..])          see optab.py for its reference

A grammar is a `G`: ordered rule definitions
  ('rule', name, params|None, expr)
  ('class', name, params|None, [(kind, name|None, expr)..])   kind: field|let|pass|requires
plus ignore declarations, mode ('text'|'bytes'), python sections, header name/extends.
"""
import re

# ----------------------------------------------------------------------------- grammar


class G:
    def __init__(self, rules, ignores=(), mode='text', header=None, extends=None,
                 pysections=(), ignore_pos=0):
        self.rules = list(rules)
        self.ignores = list(ignores)      # [(name|None, expr)]
        self.mode = mode
        self.header = header
        self.extends = extends
        self.pysections = list(pysections)
        self.ignore_pos = ignore_pos       # index among the rules where ignores are rendered

    def copy(self, **kw):
        d = dict(rules=list(self.rules), ignores=list(self.ignores), mode=self.mode,
                 header=self.header, extends=self.extends, pysections=list(self.pysections),
                 ignore_pos=self.ignore_pos)
        d.update(kw)
        return G(**d)

    def ruledict(self):
        return {r[1]: r for r in self.rules}

    def start_name(self):
        """The start rule as sourcer chooses it among *named* rules/classes: the first one
        whose name is 'start' case-insensitively.  (Generated grammars always have one.)"""
        for r in self.rules:
            if r[1].lower() == 'start':
                return r[1]
        return None


def children(n):
    k = n[0]
    if k in ('lit', 'ci', 'rx', 'byte', 'ref', 'backtrack', 'fail', 'py'):
        return []
    if k in ('seq', 'choice', 'skip', 'longest'):
        return list(n[1])
    if k in ('right', 'left', 'where', 'apply', 'applyl'):
        return [n[1], n[2]]
    if k in ('opt', 'expect', 'expectnot'):
        return [n[1]]
    if k == 'rep':
        return [n[1]]
    if k == 'sep':
        return [n[1], n[2]]
    if k == 'let':
        return [n[2], n[3]]
    if k == 'call':
        return list(n[2]) + [a for _, a in n[3]]
    if k == 'optable':
        out = [n[1]]
        for _, ops in n[2]:
            out.extend(ops)
        return out
    raise ValueError(k)


def rebuild(n, kids):
    """Same node with its children replaced (inverse of `children`)."""
    k = n[0]
    if not kids and k in ('lit', 'ci', 'rx', 'byte', 'ref', 'backtrack', 'fail', 'py'):
        return n
    if k in ('seq', 'choice', 'skip', 'longest'):
        return (k, list(kids))
    if k in ('right', 'left', 'where', 'apply', 'applyl'):
        return (k, kids[0], kids[1])
    if k in ('opt', 'expect', 'expectnot'):
        return (k, kids[0])
    if k == 'rep':
        return (k, kids[0], n[2], n[3])
    if k == 'sep':
        return (k, kids[0], kids[1]) + tuple(n[3:])
    if k == 'let':
        return (k, n[1], kids[0], kids[1])
    if k == 'call':
        na = len(n[2])
        return (k, n[1], list(kids[:na]), [(kw, a) for (kw, _), a in zip(n[3], kids[na:])])
    if k == 'optable':
        it = iter(kids[1:])
        rows = [(a, [next(it) for _ in ops]) for a, ops in n[2]]
        return (k, kids[0], rows)
    raise ValueError(k)


def walk(n):
    stack = [n]
    while stack:
        x = stack.pop()
        yield x
        stack.extend(reversed(children(x)))


def freeze(n):
    if isinstance(n, (list, tuple)):
        return tuple(freeze(x) for x in n)
    return n


def rule_exprs(r):
    if r[0] == 'rule':
        return [r[3]]
    return [m[2] for m in r[3] if m[0] != 'requires']


def kinds(g):
    out = set()
    for r in g.rules:
        out.add(r[0])
        for e in rule_exprs(r):
            for x in walk(e):
                out.add(x[0])
    return out


# ---------------------------------------------------------------------------- renderer


class Style:
    """Spelling options.  `bits` is an iterator of small ints (drawn by the caller's
    generator, so rendering is a pure function of generated data); when exhausted or
    None the canonical spelling is used."""

    def __init__(self, bits=None, full_parens=True):
        self.bits = list(bits) if bits is not None else None
        self.i = 0
        self.full_parens = full_parens

    def pick(self, n):
        if not self.bits:
            return 0
        # cyclic, shifted on every round, so that long grammars keep varying
        v = self.bits[self.i % len(self.bits)] + self.i // len(self.bits)
        self.i += 1
        return v % n


_TWO_SPELLINGS = ('seq', 'right', 'left', 'choice', 'opt', 'rep', 'sep')


class _Plain:
    """Style view that answers 0 (operator spelling) for the current node only."""

    def __init__(self, st):
        self.st = st
        self.bits = st.bits
        self.full_parens = st.full_parens

    def pick(self, n):
        return 0


def _q(s, mode):
    if mode == 'bytes':
        if isinstance(s, str):
            s = s.encode('latin-1')
        return repr(s)
    return repr(s)


def _rxs(p, mode):
    if isinstance(p, bytes):
        p = p.decode('latin-1')
    return ('b' if mode == 'bytes' else '') + '/' + p + '/'


def _bound(b):
    if b is None:
        return ''
    if isinstance(b, int):
        return str(b)
    return b  # symbolic: a name, or '`src`'


def render_expr(n, mode='text', st=None):
    st = st or Style()
    st0 = st
    R = lambda x: render_expr(x, mode, st0)
    k = n[0]
    if k in _TWO_SPELLINGS and any(c[0] == 'py' for c in children(n)):
        # the constructor forms read bare inline Python as option values (documented
        # exception), so an operand that is bare inline Python forces the operator form
        st = _Plain(st)
    if k == 'lit':
        return _q(n[1], mode)
    if k == 'ci':
        return _q(n[1], mode) + 'i'
    if k == 'rx':
        return _rxs(n[1], mode)
    if k == 'byte':
        return '0x%02x' % n[1] if not st.pick(2) else '0X%02X' % n[1]
    if k == 'ref':
        return n[1]
    if k == 'py':
        return '`%s`' % n[1]
    if k == 'seq':
        if st.pick(2) and n[1]:
            return 'Seq(%s)' % ', '.join(R(c) for c in n[1])
        return '[%s]' % ', '.join(R(c) for c in n[1])
    if k in ('right', 'left'):
        if st.pick(2):
            return '%s(%s, %s)' % ('Right' if k == 'right' else 'Left', R(n[1]), R(n[2]))
        return '(%s %s %s)' % (R(n[1]), '>>' if k == 'right' else '<<', R(n[2]))
    if k == 'choice':
        if st.pick(2):
            return 'Choice(%s)' % ', '.join(R(c) for c in n[1])
        return '(%s)' % ' | '.join(R(c) for c in n[1])
    if k == 'opt':
        return 'Opt(%s)' % R(n[1]) if st.pick(2) else '(%s)?' % R(n[1])
    if k == 'rep':
        _, e, lo, hi = n
        symbolic = isinstance(lo, str) or isinstance(hi, str)
        if not symbolic and st.pick(2):
            if (lo in (0, None)) and hi is None:
                return 'List(%s)' % R(e)
            if lo == 1 and hi is None:
                return 'Some(%s)' % R(e) if st.pick(2) else 'List(%s, min_len=1)' % R(e)
            args = []
            if lo is not None:
                args.append('min_len=%s' % _kwbound(lo))
            if hi is not None:
                args.append('max_len=%s' % _kwbound(hi))
            return 'List(%s, %s)' % (R(e), ', '.join(args))
        if (lo in (0, None)) and hi is None:
            return '(%s)*' % R(e)
        if lo == 1 and hi is None:
            return '(%s)+' % R(e)
        if lo == hi and lo is not None:
            return '(%s){%s}' % (R(e), _bound(lo))
        return '(%s){%s,%s}' % (R(e), _bound(lo), _bound(hi))
    if k == 'expect':
        return 'Expect(%s)' % R(n[1])
    if k == 'expectnot':
        return 'ExpectNot(%s)' % R(n[1])
    if k == 'skip':
        return 'Skip(%s)' % ', '.join(R(c) for c in n[1])
    if k == 'longest':
        return 'Longest(%s)' % ', '.join(R(c) for c in n[1])
    if k == 'backtrack':
        return 'Backtrack(%d)' % n[1]
    if k == 'fail':
        return 'Fail()' if n[1] is None else 'Fail(%s)' % repr(n[1])
    if k == 'sep':
        _, e, s, keep, trailer, empty, req = n
        if not keep and empty and not req and not st.pick(2):
            return '(%s %s %s)' % (R(e), '/?' if trailer else '//', R(s))
        kw = []
        if keep or st.pick(2):
            kw.append('discard_separators=%s' % (not keep))
        if trailer or st.pick(2):
            kw.append('allow_trailer=%s' % trailer)
        if not empty or st.pick(2):
            kw.append('allow_empty=%s' % empty)
        if req or st.pick(2):
            kw.append('require_separator=%s' % req)
        return 'Sep(%s)' % ', '.join([R(e), R(s)] + kw)
    if k == 'let':
        return '(let %s = %s in %s)' % (n[1], R(n[2]), R(n[3]))
    if k == 'where':
        return '(%s where %s)' % (R(n[1]), R(n[2]))
    if k == 'apply':
        return '(%s |> %s)' % (R(n[1]), R(n[2]))
    if k == 'applyl':
        return '(%s <| %s)' % (R(n[1]), R(n[2]))
    if k == 'call':
        args = [R(a) for a in n[2]] + ['%s=%s' % (kw, R(a)) for kw, a in n[3]]
        return '%s(%s)' % (n[1], ', '.join(args))
    if k == 'optable':
        rows = []
        for assoc, ops in n[2]:
            rows.append('    %s: %s' % (assoc, ', '.join(R(o) for o in ops)))
        return '(%s between {\n%s\n})' % (R(n[1]), '\n'.join(rows))
    raise ValueError(k)


def _kwbound(b):
    # the constructor form is only used for literal integer bounds
    assert isinstance(b, int)
    return str(b)


def render_rule(r, mode='text', st=None):
    st = st or Style()
    sign = ['=', ':', '=>'][st.pick(3)]
    if r[0] == 'rule':
        _, name, params, expr = r
        ps = '' if params is None else '(%s)' % ', '.join(params)
        return '%s%s %s %s' % (name, ps, sign, render_expr(expr, mode, st))
    _, name, params, members = r
    ps = '' if params is None else '(%s)' % ', '.join(params)
    lines = []
    for kind, mname, e in members:
        msign = ['=', ':', '=>'][st.pick(3)] if st.bits is not None else ':'
        if kind == 'field':
            lines.append('    %s%s %s' % (mname, msign, render_expr(e, mode, st)))
        elif kind == 'let':
            lines.append('    let %s%s %s' % (mname, msign, render_expr(e, mode, st)))
        elif kind == 'pass':
            lines.append('    pass %s' % render_expr(e, mode, st))
        elif kind == 'requires':
            lines.append('    requires %s' % render_expr(e, mode, st))
        else:
            raise ValueError(kind)
    return 'class %s%s {\n%s\n}' % (name, ps, '\n'.join(lines))


def render(g, st=None, header=None):
    """Render a whole grammar.  `header` overrides g.header (None = as in g; False =
    force unnamed)."""
    st = st or Style()
    parts = []
    hdr = g.header if header is None else (None if header is False else header)
    if hdr:
        parts.append('grammar %s%s' % (hdr, ' extends %s' % g.extends if g.extends else ''))
    for sec in g.pysections:
        parts.append('```\n%s\n```' % sec)
    body = [render_rule(r, g.mode, st) for r in g.rules]
    ign = []
    for name, e in g.ignores:
        kw = 'ignored' if st.pick(2) else 'ignore'
        if name:
            ign.append('%s %s = %s' % (kw, name, render_expr(e, g.mode, st)))
        else:
            ign.append('%s %s' % (kw, render_expr(e, g.mode, st)))
    at = min(g.ignore_pos, len(body))
    body[at:at] = ign
    parts.extend(body)
    return '\n'.join(parts) + '\n'


# -------------------------------------------------------------------- well-formedness


_RX_NULLABLE = {}
_IDENT = re.compile(r'[A-Za-z_][A-Za-z_0-9]*')
_LEAF_KINDS = ('lit', 'ci', 'rx', 'byte', 'ref', 'backtrack', 'fail', 'py')


def rx_nullable(p):
    """May the pattern match without consuming?  Lookarounds and anchors make that depend on
    the context ('(?=a)' does not match '' but matches, with width 0, in front of an 'a'), so
    the pattern is probed in every context of up to three characters."""
    if p not in _RX_NULLABLE:
        rx = re.compile(p)
        alpha = 'abAB1 Z\n'
        if not isinstance(p, str):
            alpha = alpha.encode('latin-1')
        probes = [alpha[:0]] + [alpha[i:i + 1] for i in range(len(alpha))]
        if any(c in (p if isinstance(p, str) else p.decode('latin-1')) for c in ('(?', '$', '^', '\\b', '\\B', '\\Z', '\\A')):
            one = probes[1:]
            probes += [x + y for x in one for y in one]
        found = False
        for t in probes:
            for i in range(len(t) + 1):
                m = rx.match(t, i)
                if m is not None and m.end() == i:
                    found = True
                    break
            if found:
                break
        _RX_NULLABLE[p] = found
    return _RX_NULLABLE[p]


def nullable(n, rules=None, assume=None):
    """May `n` succeed without consuming?  Conservative (over-approximating) so that it
    can be used to *construct* repetition bodies that always make progress.
    `rules`: name -> bool (already computed nullability of rules); unknown refs and
    parameters count as nullable."""
    k = n[0]
    if k not in _LEAF_KINDS and uses_backtrack(n, rules):
        return True   # net progress unknown once something looks behind
    if k == 'lit':
        return len(n[1]) == 0
    if k == 'ci':
        return len(n[1]) == 0
    if k == 'rx':
        return rx_nullable(n[1])
    if k == 'byte':
        return False
    if k == 'ref':
        return True if rules is None else rules.get(n[1], True)
    if k in ('seq',):
        return all(nullable(c, rules) for c in n[1])
    if k in ('right', 'left'):
        return nullable(n[1], rules) and nullable(n[2], rules)
    if k in ('choice', 'longest'):
        return any(nullable(c, rules) for c in n[1])
    if k in ('opt', 'expect', 'expectnot', 'skip', 'backtrack', 'py'):
        return True
    if k == 'rep':
        lo = n[2]
        if lo in (0, None) or not isinstance(lo, int):
            return True
        return nullable(n[1], rules)
    if k == 'fail':
        return False
    if k == 'sep':
        return n[5] or nullable(n[1], rules)
    if k == 'let':
        return nullable(n[2], rules) and nullable(n[3], rules)
    if k in ('where', 'apply'):
        return nullable(n[1], rules)
    if k == 'applyl':
        return nullable(n[2], rules)
    if k == 'call':
        return True if rules is None else rules.get(n[1], True)
    if k == 'optable':
        return nullable(n[1], rules) or any(
            nullable(o, rules) for a, ops in n[2] if a == 'mixfix' for o in ops)
    raise ValueError(k)


def rule_nullability(g):
    """Least fixpoint: name -> may the rule succeed without consuming."""
    res = {r[1]: False for r in g.rules}
    changed = True
    while changed:
        changed = False
        for r in g.rules:
            if r[0] == 'rule':
                v = nullable(r[3], res)
                bt = uses_backtrack(r[3], res)
            else:
                v = all(nullable(m[2], res) for m in r[3] if m[0] != 'requires')
                bt = any(uses_backtrack(m[2], res) for m in r[3] if m[0] != 'requires')
            if bt and res[r[1]] != 'BT':
                res[r[1]] = 'BT'
                changed = True
            elif v and not res[r[1]]:
                res[r[1]] = True
                changed = True
    return res


def uses_backtrack(n, rules=None):
    """Does n look behind - directly, or through a rule marked 'BT' in `rules`?"""
    for x in walk(n):
        if x[0] == 'backtrack':
            return True
        if rules is not None and x[0] in ('ref', 'call') and rules.get(x[1]) == 'BT':
            return True
    return False


# --------------------------------------------------------------- reference interpreter


class Obj:
    """A class instance (or Infix/Prefix/Postfix node) built by the reference."""
    __slots__ = ('cls', 'fields', 'span')

    def __init__(self, cls, fields, span=None):
        self.cls = cls
        self.fields = fields           # list of (name, value)
        self.span = span               # (start, end_exclusive) or None

    def __eq__(self, other):
        return isinstance(other, Obj) and self.cls == other.cls and self.fields == other.fields

    def __ne__(self, other):
        return not self.__eq__(other)

    def __hash__(self):
        return hash(self.cls)

    def __getattr__(self, name):
        for k, v in object.__getattribute__(self, 'fields'):
            if k == name:
                return v
        raise AttributeError(name)

    def __repr__(self):
        return '%s(%s)' % (self.cls, ', '.join('%s=%r' % kv for kv in self.fields))


class Bind:
    """A binding in the reference environment: a value, and/or a parser thunk."""
    __slots__ = ('value', 'parser')

    def __init__(self, value=None, parser=None):
        self.value = value
        self.parser = parser


class RefError(Exception):
    """The reference cannot evaluate this case (generator produced something outside the
    modelled domain).  Never a verdict; counted and reported as a harness problem."""


class StepLimit(Exception):
    pass


class Interp:
    def __init__(self, g, text, pyglobals=None, step_limit=150_000):
        self.g = g
        self.text = text
        self.rules = g.ruledict()
        self.start = g.start_name()
        self.ignore_exprs = [e for _, e in g.ignores]
        self.ignore_names = [nm for nm, _ in g.ignores]
        self.flags = 0
        self.events = {}
        self.steps = 0
        self.step_limit = step_limit
        self.pyglobals = pyglobals if pyglobals is not None else {}
        self.instances = []           # Obj built on the successful path are found via result
        self._rx = {}
        self.refcalls = {}            # (rule, pos) -> number of references (C07)
        self.bindlog = {}             # name -> set of canonical values bound during this parse
        self.lookahead = 0            # nesting depth of Expect/ExpectNot being evaluated
        self.skip_runs = []           # (start, end) of every non-empty skip
        self.calls_at = {}            # (template, pos) -> set of rendered call expressions

    # -- helpers
    def ev_(self, name, amount=1):
        self.events[name] = self.events.get(name, 0) + amount

    def regex(self, p, ci=False):
        key = (p, ci)
        r = self._rx.get(key)
        if r is None:
            pat = p
            if isinstance(self.text, bytes) and isinstance(pat, str):
                pat = pat.encode('latin-1')
            r = self._rx[key] = re.compile(pat, re.IGNORECASE if ci else 0)
        return r

    def skip(self, pos, where='tok'):
        if not self.ignore_exprs:
            return pos
        p = pos
        while True:
            for e in self.ignore_exprs:
                r = self.ev(e, p, {})
                if r is not None:
                    p = r[1]
                    break
            else:
                break
        if p != pos:
            self.ev_('skip_' + where)
            if self.lookahead:
                self.ev_('skip_in_lookahead')
            if p == len(self.text):
                self.ev_('skip_trailing')
            if len(self.skip_runs) < 50:
                self.skip_runs.append((pos, p))
        return p

    def note_bind(self, name, value):
        try:
            c = canon(value)
        except Exception:
            c = '?'
        st_ = self.bindlog.setdefault(name, set())
        if len(st_) < 4:
            st_.add(c)

    def note_read(self, name):
        if len(self.bindlog.get(name, ())) >= 2:
            self.ev_('read_after_rebind')

    def lit_value(self, s):
        if isinstance(self.text, bytes) and isinstance(s, str):
            return s.encode('latin-1')
        return s

    # -- entry points
    def run_rule(self, name, pos=0, args=None):
        r = self.rules[name]
        return self.call_rule(r, pos, args or {})

    def call_rule(self, r, pos, env):
        name = r[1]
        self.steps += 1
        if self.steps > self.step_limit:
            raise StepLimit()
        if r[2] is None:
            key = (name, pos)
            self.refcalls[key] = self.refcalls.get(key, 0) + 1
        if name == self.start and self.ignore_exprs:
            # sourcer rewrites the *start rule's* first expression to skip first.
            start_pos = pos
            pos2 = self.skip(pos, 'lead')
        else:
            start_pos = pos
            pos2 = pos
        if r[0] == 'rule':
            return self.ev(r[3], pos2, env)
        # class
        fields = []
        env = dict(env)
        p = pos2
        first = True
        for kind, mname, e in r[3]:
            if kind == 'requires':
                ok = self.pyeval_node(e, env)
                if not ok:
                    self.ev_('requires_false')
                    return None
                continue
            res = self.ev(e, p, env)
            if res is None:
                if p > start_pos:
                    self.ev_('fail_after_consume')
                return None
            v, p = res
            if mname is not None:
                self.note_bind(mname, v)
                env[mname] = Bind(v, self._value_parser(v))
                if kind == 'field':
                    fields.append((mname, v))
        return (Obj(name, fields, (start_pos, p)), p)

    def _value_parser(self, v):
        return None

    def pyeval(self, src, env):
        # one merged namespace, so that lambdas created by the source see the bound names
        ns = dict(self.pyglobals)
        for k, b in env.items():
            ns[k] = b.value
        if env:
            for ident in _IDENT.findall(src):
                if ident in env:
                    self.note_read(ident)
        try:
            return eval(src, ns)
        except RefError:
            raise
        except Exception as e:
            raise RefError('inline python %r raised %r' % (src, e))

    def pyeval_node(self, e, env):
        if e[0] == 'py':
            return self.pyeval(e[1], env)
        r = self.ev(e, 0, env)
        if r is None:
            raise RefError('value expression failed')
        return r[0]

    def bound(self, b, env):
        if b is None or isinstance(b, int):
            return b
        if b.startswith('`'):
            return self.pyeval(b[1:-1], env)
        if b in env:
            self.note_read(b)
            return env[b].value
        return self.pyeval(b, env)

    # -- the evaluator
    def ev(self, n, pos, env):
        self.steps += 1
        if self.steps > self.step_limit:
            raise StepLimit()
        t = self.text
        k = n[0]
        if k == 'lit':
            s = self.lit_value(n[1])
            if not s:
                return (s, pos)
            if t.startswith(s, pos):
                return (s, self.skip(pos + len(s)))
            return None
        if k == 'ci':
            s = self.lit_value(n[1])
            m = self.regex(re.escape(s), True).match(t, pos)
            if m:
                return (m.group(0), self.skip(m.end()))
            return None
        if k == 'rx':
            m = self.regex(n[1]).match(t, pos)
            if m:
                return (m.group(0), self.skip(m.end()))
            return None
        if k == 'byte':
            if pos < len(t) and t[pos] == n[1]:
                return (n[1], self.skip(pos + 1))
            return None
        if k == 'ref':
            name = n[1]
            if name in env:
                b = env[name]
                if b.parser is None:
                    raise RefError('name %r is not a parser' % name)
                return b.parser(pos)
            if name not in self.rules:
                raise RefError('unknown rule %r' % name)
            r = self.rules[name]
            if r[2] is not None:
                raise RefError('template %r referenced without arguments' % name)
            return self.call_rule(r, pos, {})
        if k == 'seq':
            out = []
            p = pos
            for c in n[1]:
                r = self.ev(c, p, env)
                if r is None:
                    if p > pos:
                        self.ev_('fail_after_consume')
                    return None
                out.append(r[0])
                p = r[1]
            return (out, p)
        if k in ('right', 'left'):
            a = self.ev(n[1], pos, env)
            if a is None:
                return None
            b = self.ev(n[2], a[1], env)
            if b is None:
                if a[1] > pos:
                    self.ev_('fail_after_consume')
                return None
            return ((b[0] if k == 'right' else a[0]), b[1])
        if k == 'choice':
            for i, c in enumerate(n[1]):
                r = self.ev(c, pos, env)
                if r is not None:
                    if i > 0:
                        self.ev_('alt_taken')
                    return r
            return None
        if k == 'opt':
            r = self.ev(n[1], pos, env)
            if r is None:
                return (None, pos)
            return r
        if k == 'rep':
            _, e, lo, hi = n
            lo = self.bound(lo, env)
            hi = self.bound(hi, env)
            lo = lo or 0
            out = []
            p = pos
            while hi is None or len(out) < hi:
                r = self.ev(e, p, env)
                if r is None:
                    break
                if r[1] == p and hi is None:
                    raise RefError('repetition body succeeded without progress')
                out.append(r[0])
                p = r[1]
            else:
                self.ev_('bound_hit_max')
            if len(out) < lo:
                if p > pos:
                    self.ev_('fail_after_consume')
                    self.ev_('bound_miss_min')
                return None
            return (out, p)
        if k == 'expect':
            self.lookahead += 1
            try:
                r = self.ev(n[1], pos, env)
            finally:
                self.lookahead -= 1
            if r is None:
                return None
            if r[1] != pos:
                self.ev_('rewind')
            return (r[0], pos)
        if k == 'expectnot':
            self.lookahead += 1
            try:
                r = self.ev(n[1], pos, env)
            finally:
                self.lookahead -= 1
            if r is None:
                return (None, pos)
            if r[1] != pos:
                self.ev_('rewind')
            return None
        if k == 'skip':
            p = pos
            while True:
                for c in n[1]:
                    r = self.ev(c, p, env)
                    if r is not None and r[1] != p:
                        p = r[1]
                        break
                else:
                    return (None, p)
        if k == 'longest':
            best = None
            for c in n[1]:
                r = self.ev(c, pos, env)
                if r is not None and (best is None or r[1] > best[1]):
                    if best is not None:
                        self.ev_('alt_taken')
                    best = r
            return best
        if k == 'backtrack':
            if pos >= n[1]:
                return (None, pos - n[1])
            return None
        if k == 'fail':
            return None
        if k == 'sep':
            return self.ev_sep(n, pos, env)
        if k == 'let':
            a = self.ev(n[2], pos, env)
            if a is None:
                return None
            env2 = dict(env)
            if n[1] in env:
                self.ev_('rebind')
            self.note_bind(n[1], a[0])
            env2[n[1]] = Bind(a[0], None)
            r = self.ev(n[3], a[1], env2)
            if r is None and a[1] > pos:
                self.ev_('fail_after_consume')
            return r
        if k == 'where':
            a = self.ev(n[1], pos, env)
            if a is None:
                return None
            p = self.ev(n[2], a[1], env)
            if p is None:
                return None
            try:
                ok = p[0](a[0])
            except Exception as e:
                raise RefError('predicate raised %r' % (e,))
            if not ok:
                self.ev_('where_false')
                if a[1] > pos:
                    self.ev_('fail_after_consume')
                return None
            return (a[0], p[1])
        if k == 'apply':
            a = self.ev(n[1], pos, env)
            if a is None:
                return None
            f = self.ev(n[2], a[1], env)
            if f is None:
                return None
            try:
                return (f[0](a[0]), f[1])
            except Exception as e:
                raise RefError('applied function raised %r' % (e,))
        if k == 'applyl':
            f = self.ev(n[1], pos, env)
            if f is None:
                return None
            a = self.ev(n[2], f[1], env)
            if a is None:
                return None
            try:
                return (f[0](a[0]), a[1])
            except Exception as e:
                raise RefError('applied function raised %r' % (e,))
        if k == 'py':
            return (self.pyeval(n[1], env), pos)
        if k == 'call':
            return self.ev_call(n, pos, env)
        if k == 'optable':
            from . import optab
            return optab.ev_optable(self, n, pos, env)
        raise ValueError(k)

    def ev_sep(self, n, pos, env):
        _, e, s, keep, trailer, empty, req = n
        out = []
        p = end = pos
        saw = False
        count = 0
        dangling = False
        while True:
            iter_start = p
            r = self.ev(e, p, env)
            if r is None:
                if count and p != end:
                    dangling = True
                break
            if keep and not trailer and count:
                out.append(pending)
            out.append(r[0])
            count += 1
            p = end = r[1]
            r = self.ev(s, p, env)
            if r is None:
                break
            saw = True
            p = r[1]
            if p == iter_start:
                raise RefError('separated list iterates without progress')
            if trailer:
                end = p
                if keep:
                    out.append(r[0])
            else:
                pending = r[0]
        if dangling:
            self.ev_('dangling_sep')
        if not out and not empty:
            return None
        if req and not ((empty and not out) or saw):
            if end > pos:
                self.ev_('fail_after_consume')
            return None
        return (out, end)

    def make_arg(self, a, env):
        """Bind one call argument in the caller's environment."""
        k = a[0]
        if k == 'lit':
            v = self.lit_value(a[1])
            return Bind(v, lambda pos, a=a: self.ev(a, pos, {}))
        if k == 'byte':
            return Bind(a[1], lambda pos, a=a: self.ev(a, pos, {}))
        if k == 'py':
            return Bind(self.pyeval(a[1], env), None)
        if k == 'ref':
            if a[1] in env:
                return env[a[1]]
            return Bind(None, lambda pos, a=a: self.ev(a, pos, {}))
        cap = dict(env)
        return Bind(None, lambda pos, a=a, cap=cap: self.ev(a, pos, cap))

    def ev_call(self, n, pos, env):
        _, name, args, kwargs = n
        if name in env:
            raise RefError('call through a local name')
        r = self.rules.get(name)
        if r is None or r[2] is None:
            raise RefError('call of non-template %r' % name)
        params = r[2]
        new = {}
        if len(args) + len(kwargs) != len(params):
            raise RefError('arity')
        for p_, a in zip(params, args):
            new[p_] = self.make_arg(a, env)
        for kw, a in kwargs:
            if kw in new or kw not in params:
                raise RefError('bad keyword')
            new[kw] = self.make_arg(a, env)
        for p_, b in new.items():
            if b.parser is None or b.value is not None:
                self.note_bind(p_, b.value)
        if len(self.calls_at.setdefault((name, pos), set())) < 4:
            try:
                self.calls_at[(name, pos)].add(render_expr(n))
            except Exception:
                pass
            if len(self.calls_at[(name, pos)]) >= 2:
                self.ev_('multi_instantiation_same_pos')
        if any(a[0] not in ('lit', 'ref', 'byte') or (a[0] == 'ref' and a[1] in env) for a in list(args) + [a for _, a in kwargs]):
            self.ev_('nonliteral_argument')
        self.ev_('call')
        return self.call_rule(r, pos, new)


# ----------------------------------------------------------------------- canonical form


def _is_parsed_object(v):
    return hasattr(v, '_metadata') and hasattr(v, '_fields')


def canon(v):
    """Iterative canonical serialisation of a result value (SUT or reference).  Two values
    are 'the same result' iff their canonical strings are equal."""
    out = []
    stack = [v]
    while stack:
        x = stack.pop()
        if type(x) is _Tok:
            out.append(x.s)
            continue
        if x is None:
            out.append('N')
        elif x is True:
            out.append('T')
        elif x is False:
            out.append('F')
        elif isinstance(x, Obj):
            out.append('<' + x.cls)
            items = []
            for fn, fv in x.fields:
                items.append(_Tok(' ' + fn + '='))
                items.append(fv)
            items.append(_Tok('>'))
            stack.extend(reversed(items))
        elif _is_parsed_object(x):
            out.append('<' + type(x).__name__)
            items = []
            for fn in x._fields:
                items.append(_Tok(' ' + fn + '='))
                items.append(getattr(x, fn))
            items.append(_Tok('>'))
            stack.extend(reversed(items))
        elif isinstance(x, int):
            out.append('i%d' % x)
        elif isinstance(x, float):
            out.append('f%r' % x)
        elif isinstance(x, str):
            out.append('s' + str.__repr__(str(x)))
        elif isinstance(x, (bytes, bytearray)):
            out.append('y' + repr(bytes(x)))
        elif isinstance(x, list):
            out.append('[')
            items = []
            for i, c in enumerate(x):
                if i:
                    items.append(_Tok(','))
                items.append(c)
            items.append(_Tok(']'))
            stack.extend(reversed(items))
        elif isinstance(x, tuple):
            out.append('(')
            items = []
            for i, c in enumerate(x):
                if i:
                    items.append(_Tok(','))
                items.append(c)
            items.append(_Tok(')'))
            stack.extend(reversed(items))
        elif isinstance(x, dict):
            out.append('{')
            items = []
            for i, (kk, vv) in enumerate(x.items()):
                if i:
                    items.append(_Tok(','))
                items.append(kk)
                items.append(_Tok(':'))
                items.append(vv)
            items.append(_Tok('}'))
            stack.extend(reversed(items))
        else:
            out.append('?' + type(x).__name__)
    return ''.join(out)


class _Tok:
    __slots__ = ('s',)

    def __init__(self, s):
        self.s = s


def objects_of(v):
    """All Obj / ParsedObject nodes inside a result value, preorder, iteratively (no
    de-duplication: occurrences)."""
    stack = [v]
    while stack:
        x = stack.pop()
        if isinstance(x, Obj):
            yield x
            stack.extend(fv for _, fv in reversed(x.fields))
        elif _is_parsed_object(x):
            yield x
            stack.extend(getattr(x, f) for f in reversed(x._fields))
        elif isinstance(x, (list, tuple)):
            stack.extend(reversed(x))
        elif isinstance(x, dict):
            stack.extend(reversed(list(x.values())))


# ------------------------------------------------------------------- (de)serialisation


def g_to_dict(g):
    return {'rules': g.rules, 'ignores': g.ignores, 'mode': g.mode, 'header': g.header,
            'extends': g.extends, 'pysections': g.pysections, 'ignore_pos': g.ignore_pos}


def g_from_dict(d):
    return G(d['rules'], d.get('ignores', ()), d.get('mode', 'text'), d.get('header'),
             d.get('extends'), d.get('pysections', ()), d.get('ignore_pos', 0))


# ------------------------------------------------ layout-rich renderer (C19, C11, C12)
# Precedence of grammar.txt: postfix forms tightest (4), then // /? (3), then << >> (2),
# then <| |> where (1), then | (0); binary operators associate to the left.  Atoms are 5.


class Layout(Style):
    """Style + layout decisions (line breaks, comments, redundant parentheses, separators,
    quote styles, minimal parentheses).  Everything is drawn from `bits`."""

    def __init__(self, bits=None, minimal=True):
        Style.__init__(self, bits, full_parens=not minimal)
        self.minimal = minimal

    def nl(self):
        """Text for a place where the metagrammar allows a line break (wrap(...))."""
        k = self.pick(9)
        if k < 5:
            return ' '
        if k == 5:
            return '\n    '
        if k == 6:
            return ' # note\n  '
        if k == 7:
            return '\n\n  '
        return ''


def _quote(s, mode, st):
    if mode == 'bytes':
        b = s.encode('latin-1') if isinstance(s, str) else s
        r = repr(b)
        k = st.pick(3)
        if k == 1 and b'"' not in b and b"'" not in b and b'\\' not in b:
            return 'b"%s"' % r[2:-1]
        if k == 2 and b'\\' not in b and b'"' not in b and r[1] == "'":
            return 'B"""%s"""' % r[2:-1]
        return r
    r = repr(s)
    k = st.pick(3)
    if k == 1 and '"' not in s and "'" not in s and '\\' not in s and r[0] == "'":
        return '"%s"' % r[1:-1]
    if k == 2 and '"' not in s and "'" not in s and '\\' not in s and '\n' not in s and r[0] == "'":
        return "'''%s'''" % r[1:-1]
    return r


def render_expr2(n, mode, st):
    """Returns (text, level)."""
    k = n[0]

    def R(x, minlevel):
        t, lv = render_expr2(x, mode, st)
        if lv < minlevel or (st.pick(7) == 0):
            return '(%s%s%s)' % (st.nl().lstrip(' ') if st.pick(3) == 0 else '', t,
                                 st.nl().rstrip(' ') if st.pick(3) == 0 else '')
        return t

    def binop(a, op, b, level):
        left = R(a, level)
        right = R(b, level + 1)
        return '%s%s%s%s%s' % (left, st.nl() or ' ', op, st.nl() or ' ', right), level

    def args(items):
        out = []
        for it in items:
            out.append(st.nl().lstrip(' ') + it + st.nl().rstrip(' ') if st.pick(4) == 0 else it)
        return ', '.join(out)
    pychild = any(c[0] == 'py' for c in children(n)) if k in _TWO_SPELLINGS else False
    ctor = (not pychild) and st.pick(2) == 1
    if k == 'lit':
        return _quote(n[1], mode, st), 5
    if k == 'ci':
        return _quote(n[1], mode, st) + ('i' if st.pick(2) else 'I'), 5
    if k == 'rx':
        return _rxs(n[1], mode), 5
    if k == 'byte':
        return ('0x%02x' % n[1] if not st.pick(2) else '0X%02X' % n[1]), 5
    if k == 'ref':
        return n[1], 5
    if k == 'py':
        return '`%s`' % n[1], 5
    if k == 'seq':
        items = [R(c, 0) for c in n[1]]
        if ctor and n[1]:
            return 'Seq(%s)' % args(items), 5
        return '[%s]' % args(items), 5
    if k in ('right', 'left'):
        if ctor:
            return '%s(%s)' % ('Right' if k == 'right' else 'Left', args([R(n[1], 0), R(n[2], 0)])), 5
        return binop(n[1], '>>' if k == 'right' else '<<', n[2], 2)
    if k == 'choice':
        if ctor:
            return 'Choice(%s)' % args([R(c, 0) for c in n[1]]), 5
        parts = [R(n[1][0], 0)]
        for c in n[1][1:]:
            parts.append((st.nl() or ' ') + '|' + (st.nl() or ' ') + R(c, 1))
        return ''.join(parts), 0
    if k == 'opt':
        if ctor:
            return 'Opt(%s)' % R(n[1], 0), 5
        return R(n[1], 4) + '?', 4
    if k == 'rep':
        _, e, lo, hi = n
        symbolic = isinstance(lo, str) or isinstance(hi, str)
        if ctor and not symbolic:
            if (lo in (0, None)) and hi is None:
                return 'List(%s)' % R(e, 0), 5
            if lo == 1 and hi is None:
                return ('Some(%s)' % R(e, 0) if st.pick(2) else 'List(%s, min_len=1)' % R(e, 0)), 5
            a = []
            if lo is not None:
                a.append('min_len=%d' % lo)
            if hi is not None:
                a.append('max_len=%d' % hi)
            return 'List(%s, %s)' % (R(e, 0), ', '.join(a)), 5
        if (lo in (0, None)) and hi is None:
            return R(e, 4) + '*', 4
        if lo == 1 and hi is None:
            return R(e, 4) + '+', 4
        if lo == hi and lo is not None:
            return R(e, 4) + '{%s}' % _bound(lo), 4
        return R(e, 4) + '{%s,%s}' % (_bound(lo), _bound(hi)), 4
    if k == 'expect':
        return 'Expect(%s)' % R(n[1], 0), 5
    if k == 'expectnot':
        return 'ExpectNot(%s)' % R(n[1], 0), 5
    if k == 'skip':
        return 'Skip(%s)' % args([R(c, 0) for c in n[1]]), 5
    if k == 'longest':
        return 'Longest(%s)' % args([R(c, 0) for c in n[1]]), 5
    if k == 'backtrack':
        return 'Backtrack(%d)' % n[1], 5
    if k == 'fail':
        return ('Fail()' if n[1] is None else 'Fail(%s)' % repr(n[1])), 5
    if k == 'sep':
        _, e, s, keep, trailer, empty, req = n
        if not keep and empty and not req and not ctor:
            return binop(e, '/?' if trailer else '//', s, 3)
        kw = []
        if keep or st.pick(2):
            kw.append('discard_separators=%s' % (not keep))
        if trailer or st.pick(2):
            kw.append('allow_trailer=%s' % trailer)
        if not empty or st.pick(2):
            kw.append('allow_empty=%s' % empty)
        if req or st.pick(2):
            kw.append('require_separator=%s' % req)
        if pychild:
            # operator form is impossible for these options; keep the constructor form
            pass
        return 'Sep(%s)' % ', '.join([R(e, 0), R(s, 0)] + kw), 5
    if k == 'let':
        sign = ['=', ':', '=>'][st.pick(3)]
        return '(let %s %s %s%sin%s%s)' % (n[1], sign, R(n[2], 0), st.nl() or ' ', st.nl() or ' ', R(n[3], 0)), 5
    if k == 'where':
        return binop(n[1], 'where', n[2], 1)
    if k == 'apply':
        return binop(n[1], '|>', n[2], 1)
    if k == 'applyl':
        return binop(n[1], '<|', n[2], 1)
    if k == 'call':
        a = [R(x, 0) for x in n[2]] + ['%s%s%s' % (kw, ['=', ':', '=>'][st.pick(3)], R(x, 0)) for kw, x in n[3]]
        return '%s(%s)' % (n[1], args(a)), 5
    if k == 'optable':
        rows = []
        for assoc, ops in n[2]:
            rows.append('    %s: %s' % (assoc, ', '.join(R(o, 0) for o in ops)))
        return '%s between {\n%s\n}' % (R(n[1], 5), '\n'.join(rows)), 4
    raise ValueError(k)


def render_rule2(r, mode, st):
    sign = ['=', ':', '=>'][st.pick(3)]
    sep_nl = st.nl() if st.pick(3) == 0 else ' '
    if r[0] == 'rule':
        _, name, params, expr = r
        ps = '' if params is None else '(%s)' % ', '.join(params)
        return '%s%s %s%s%s' % (name, ps, sign, sep_nl or ' ', render_expr2(expr, mode, st)[0])
    _, name, params, members = r
    ps = '' if params is None else '(%s)' % ', '.join(params)
    lines = []
    for kind, mname, e in members:
        msign = ['=', ':', '=>'][st.pick(3)]
        body = render_expr2(e, mode, st)[0]
        if kind == 'field':
            lines.append('%s %s %s' % (mname, msign, body))
        elif kind == 'let':
            lines.append('let %s %s %s' % (mname, msign, body))
        elif kind == 'pass':
            lines.append('pass %s' % body)
        else:
            lines.append('requires %s' % body)
    sep = [';', '\n    ', ' ;\n    ', '\n\n    # member\n    '][st.pick(4)]
    trailer = ['', ';', '\n'][st.pick(3)] if lines else ''
    return 'class %s%s {%s%s%s\n}' % (name, ps, '\n    ' if st.pick(2) else ' ', sep.join(lines), trailer)


def first_token_is_plain(expr):
    """Can `expr` be written as a bare grammar body?  (Not when it starts with inline Python,
    which the metagrammar reads as a Python statement, or looks like a definition.)"""
    n = expr
    while True:
        k = n[0]
        if k == 'py':
            return False
        if k in ('right', 'left', 'where', 'apply', 'sep', 'opt', 'rep'):
            n = n[1]
            continue
        if k == 'applyl':
            n = n[1]
            continue
        if k == 'choice':
            n = n[1][0]
            continue
        return k in ('lit', 'ci', 'rx', 'seq', 'byte')


def render2(g, bits, header=None, allow_bare=True):
    """Whole grammar with layout variation; `bits` = list of small ints."""
    st = Layout(bits)
    parts = []
    hdr = g.header if header is None else (None if header is False else header)
    if hdr:
        parts.append('grammar %s%s' % (hdr, ' extends %s' % g.extends if g.extends else ''))
    for sec in g.pysections:
        parts.append('```\n%s\n```' % sec)
    if (allow_bare and not hdr and len(g.rules) == 1 and not g.ignores and not g.pysections
            and g.rules[0][0] == 'rule' and g.rules[0][1] == 'start' and g.rules[0][2] is None
            and first_token_is_plain(g.rules[0][3]) and st.pick(2)):
        return render_expr2(g.rules[0][3], g.mode, st)[0] + ['', '\n', ' # end\n'][st.pick(3)]
    body = [render_rule2(r, g.mode, st) for r in g.rules]
    ign = []
    for name, e in g.ignores:
        kw = 'ignored' if st.pick(2) else 'ignore'
        if name:
            ign.append('%s %s %s %s' % (kw, name, ['=', ':', '=>'][st.pick(3)], render_expr2(e, g.mode, st)[0]))
        else:
            ign.append('%s %s' % (kw, render_expr2(e, g.mode, st)[0]))
    at = min(g.ignore_pos, len(body))
    body[at:at] = ign
    parts.extend(body)
    out = [['', '\n', '# a comment first\n\n', '  \n'][st.pick(4)]]
    for i, p_ in enumerate(parts):
        out.append(p_)
        if i + 1 < len(parts):
            # python sections and class definitions must end their line
            after_block = p_.startswith('```') or (i == 0 and hdr)     # header and python sections end their line
            out.append(['\n', '\n\n', ' # trailing comment\n', ';', ' ;\n', '\n# own line\n'][st.pick(6) if not after_block else st.pick(3)])
    out.append(['\n', '', '\n\n', ' # done'][st.pick(4)])
    return ''.join(out)
