"""Consistent renaming of user-chosen names on the grammar AST (C20): rules, classes, class
fields, parameters and let variables; inline Python is renamed by tokenising it."""
import re
from . import peg, expand


def rename_grammar(g, mapping):
    """mapping: old name -> new name (injective).  Names are assumed unique across roles in g."""
    m = dict(mapping)

    def rb(b):
        return expand._rename_bound(b, m)

    def rx(n):
        k = n[0]
        if k == 'ref':
            return ('ref', m.get(n[1], n[1]))
        if k == 'py':
            return ('py', expand.rename_py(n[1], m))
        if k == 'let':
            return ('let', m.get(n[1], n[1]), rx(n[2]), rx(n[3]))
        if k == 'rep':
            return ('rep', rx(n[1]), rb(n[2]), rb(n[3]))
        if k == 'call':
            return ('call', m.get(n[1], n[1]), [rx(a) for a in n[2]], [(m.get(kw, kw), rx(a)) for kw, a in n[3]])
        kids = peg.children(n)
        if not kids:
            return n
        return peg.rebuild(n, [rx(c) for c in kids])
    rules = []
    for r in g.rules:
        name = m.get(r[1], r[1])
        params = None if r[2] is None else [m.get(p, p) for p in r[2]]
        if r[0] == 'rule':
            rules.append(('rule', name, params, rx(r[3])))
        else:
            rules.append(('class', name, params, [(mk, (m.get(mn, mn) if mn else mn), rx(e)) for mk, mn, e in r[3]]))
    ign = [((m.get(n, n) if n else n), rx(e)) for n, e in g.ignores]
    return g.copy(rules=rules, ignores=ign)


def map_canon(c, class_map, field_map):
    """Apply the renaming to a canonical result string (class and field names)."""
    if class_map:
        c = re.sub(r'<(%s)(?=[ >])' % '|'.join(map(re.escape, class_map)), lambda mo: '<' + class_map[mo.group(1)], c)
    if field_map:
        c = re.sub(r' (%s)=' % '|'.join(map(re.escape, field_map)), lambda mo: ' ' + field_map[mo.group(1)] + '=', c)
    return c
