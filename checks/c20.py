"""C20 - user-chosen names cannot collide with generated code.
Oracle (metamorphic): outcomes are identical after mapping class and field names through an
injective renaming applied on the AST (inline Python renamed by tokenising).
(i) exhaustive role x suspicious-name matrix on one feature-rich grammar; the pairs that violate
the property on the pinned tree are the known findings F21a-f (committed list
known_c20_pairs.json); any other failing pair is a violation.  (ii) hypothesis: random grammars x
random injective renamings into neutral and look-alike names outside the known families.
DESIGN.md 4/C20."""
import os
import re
import sys
import json
import keyword
import builtins

from vlib import runner, peg, sut, renaming, gens, gens_rich, diff
from vlib.runner import Check, Result, h64

BASE = peg.G([
    ('rule', 'Tok', None, ('rx', '[ab]+')),
    ('rule', 'Num', None, ('apply', ('rx', '[0-9]'), ('py', 'int'))),
    # (every function that has user-named locals also contains a repetition with literal bounds, a
    # separated list, an option, a choice and a lookahead, so that whatever those constructs call or
    # allocate lives next to the user's names)
    ('rule', 'Pair', ['ppar', 'vpar'], ('seq', [('ref', 'ppar'), ('py', 'vpar'), ('rep', ('lit', 'a'), None, 'vpar'),
                                                ('rep', ('lit', 'Q'), None, 2), ('opt', ('lit', 'Q')),
                                                ('sep', ('lit', 'Q'), ('lit', '@'), False, False, True, False)])),
    ('class', 'Box', None, [('field', 'first', ('ref', 'Tok')), ('let', 'hidden', ('ref', 'Num')),
                            ('field', 'second', ('rep', ('lit', 'a'), 'hidden', 'hidden')),
                            ('requires', None, ('py', 'len(first) > 0 and hidden < 9')),
                            ('field', 'third', ('py', '(first, hidden)')),
                            ('pass', None, ('seq', [('rep', ('lit', 'Q'), 1, 2), ('lit', 'Q')])) if False else
                            ('pass', None, ('opt', ('seq', [('rep', ('lit', 'Q'), 1, 2), ('expectnot', ('lit', 'Q'))])))]),
    ('class', 'Gen', ['qpar', 'wpar'], [('field', 'item', ('ref', 'qpar')), ('field', 'tag', ('py', 'wpar')),
                                        ('pass', None, ('rep', ('choice', [('lit', 'Q'), ('lit', 'QQ')]), 0, 3))]),
    ('rule', 'Use', None, ('let', 'kvar', ('ref', 'Tok'), ('seq', [
        ('right', ('lit', '-'), ('call', 'Pair', [('ref', 'Tok'), ('py', '1')], [])), ('py', 'kvar'),
        ('right', ('lit', '-'), ('where', ('ref', 'Tok'), ('py', 'lambda v: v != kvar'))),
        ('rep', ('lit', 'Q'), None, 3), ('longest', [('lit', 'Q'), ('lit', '')])]))),
    ('class', 'Rep', ['npar', 'mpar'], [('field', 'cells', ('rep', ('lit', 'a'), 'npar', 'npar')), ('field', 'tagr', ('py', '(npar, mpar)')),
                                        ('pass', None, ('rep', ('lit', 'Q'), 0, 2))]),
    ('rule', 'Lst', None, ('sep', ('choice', [('ref', 'Box'), ('ref', 'Tok')]), ('lit', ','), False, True, True, False)),
    ('rule', 'start', None, ('seq', [('ref', 'Box'), ('lit', ';'),
                                     ('call', 'Gen', [('choice', [('ref', 'Tok'), ('ref', 'Num')]), ('py', '"w"')], []),
                                     ('lit', ';'), ('ref', 'Use'), ('opt', ('right', ('lit', ';'), ('ref', 'Lst'))),
                                     ('opt', ('right', ('lit', '#'), ('call', 'Rep', [('py', '2'), ('py', '"m"')], [])))])),
])
ROLES = {'rule': 'Tok', 'rule2': 'Use', 'template': 'Pair', 'class': 'Box', 'pclass': 'Gen', 'field': 'first',
         'field2': 'third', 'letfield': 'hidden', 'param_parser': 'ppar', 'param_value': 'vpar', 'cparam_parser': 'qpar',
         'cparam_value': 'wpar', 'letvar': 'kvar', 'vclass': 'Rep', 'vcparam1': 'npar', 'vcparam2': 'mpar'}
# Second grammar: every kind of user-named local is READ INSIDE A COMPOUND ARGUMENT of a parameterised
# rule - inline Python, a symbolic repetition bound, a predicate - i.e. in code that is compiled into
# a helper function of its own, to which the user's locals have to be handed over by name.
_cap = lambda src: ('call', 'Idt', [('apply', ('lit', ''), ('py', 'lambda w: ' + src))], [])
BASE2 = peg.G([
    ('rule', 'Tok', None, ('rx', '[ab]+')),
    ('rule', 'Num', None, ('apply', ('rx', '[0-9]'), ('py', 'int'))),
    ('rule', 'Idt', ['ipar'], ('ref', 'ipar')),
    ('rule', 'Tpl', ['ppar', 'vpar'], ('seq', [('ref', 'ppar'), _cap('vpar'), ('call', 'Idt', [('rep', ('lit', 'Q'), None, 'vpar')], []),
                                               ('right', ('lit', '.'), ('call', 'Idt', [('ref', 'ppar')], []))])),
    ('class', 'Box', None, [('field', 'first', ('ref', 'Tok')), ('let', 'hidden', ('ref', 'Num')),
                            ('field', 'capa', _cap('(first, hidden)')),
                            ('field', 'capb', ('call', 'Idt', [('rep', ('lit', 'a'), 'hidden', 'hidden')], [])),
                            ('field', 'capc', ('call', 'Idt', [('opt', ('where', ('lit', 'Q'), ('py', 'lambda v: v != first')))], []))]),
    ('class', 'Gen', ['qpar', 'wpar'], [('field', 'item', ('call', 'Idt', [('ref', 'qpar')], [])), ('field', 'tag', _cap('wpar')),
                                        ('field', 'cnt', ('call', 'Idt', [('rep', ('lit', 'Q'), None, 'wpar')], []))]),
    ('rule', 'Use', None, ('let', 'kvar', ('ref', 'Num'), ('seq', [
        _cap('kvar + 1'), ('call', 'Idt', [('rep', ('lit', 'a'), 'kvar', 'kvar')], []),
        # (string literals as arguments too: they are wrapped into objects of their own by generated code)
        ('right', ('call', 'Idt', [('lit', '-')], []), ('call', 'Idt', [('apply', ('ref', 'Tok'), ('py', 'lambda w: (w, kvar)'))], []))]))),
    ('rule', 'start', None, ('seq', [('ref', 'Box'), ('lit', ';'), ('call', 'Gen', [('ref', 'Tok'), ('py', '1')], []), ('lit', ';'),
                                     ('ref', 'Use'), ('opt', ('right', ('lit', ';'), ('call', 'Tpl', [('ref', 'Tok'), ('py', '2')], []))),
                                     ('opt', ('right', ('lit', '!'), ('call', 'Gen', [('lit', 'b')], [('wpar', ('py', '0'))])))])),
])
ROLES2 = {'h:field': 'first', 'h:letfield': 'hidden', 'h:param_parser': 'ppar', 'h:param_value': 'vpar', 'h:cparam_parser': 'qpar',
          'h:cparam_value': 'wpar', 'h:letvar': 'kvar', 'h:rule': 'Tok', 'h:rule2': 'Use', 'h:class': 'Box', 'h:pclass': 'Gen',
          'h:template': 'Tpl'}
INPUTS2 = ['ab2aa;b;1a-ab', 'ab2aa;b;1a-ab;a.b', 'ab2aa;b;1a-ab;a.b!b', 'a0;a;0-b!b', 'a0;a;0-b', 'a1a;b;2aa-a;ab.ab', '', 'ab', 'a1a;;', 'ab2a;b;1a-ab', 'ab2aa;b;1-ab',
           'ab2aa;b;1a-ab;a.', 'b3aaa;ab;1a-b']
ENTRY_CALLS2 = [('Use', None, ['1a-ab', '2a-a', '0-b']), ('Box', None, ['ab2aa', 'a0', 'b9']), ('Gen', ('Tok', 1), [])]
ENTRY_CALLS2 = ENTRY_CALLS2[:2] + [('Tok', None, ['ab', 'abZ'])]
CLASS_ROLES = ('class', 'pclass', 'vclass', 'h:class', 'h:pclass')
FIELD_ROLES = ('field', 'field2', 'h:field')
INPUTS = ['ab2aa;b;ab-ba-a', 'ab2aa;3;ab-b-a;a1a,b,', 'a0;a;b-a-ab', 'ab2aa;b;ab-ba-ab', 'a1a;b;a-a-b;b3aaa,a', '', 'ab',
          'a1a;;', 'a1a;b;a-a', 'b9;a;a-b-b', 'a1a;b;a-a-b#aa', 'a1a;b;a-a-b;b#a']
# every kind of entry point (the renamed name is looked up through the renaming)
ENTRY_CALLS = [('Tok', None, ['ab', 'abZ', '']), ('Use', None, ['ab-ba-a', 'a-a-a']), ('Box', None, ['ab2aa', 'a0', 'b9']),
               ('Lst', None, ['a1a,b,', 'b']), ('Rep', (2, 'm'), ['aa', 'a', 'aaa']), ('Rep', (0, None), ['', 'a'])]
API = ('parse', 'Infix', 'Prefix', 'Postfix', 'ParseError', 'PartialParseError', 'InputError', 'ParsedObject', 'ParsingRule',
       'visit', 'traverse', 'transform')
TEMP_BASES = ['value', 'item', 'staging', 'checkpoint', 'backtrack', 'farthest_pos', 'farthest_err', 'arg', 'func', 'match',
              'end', 'start_pos', 'matcher', 'has_result', 'farthest_result', 'farthest_position', 'farthest_error_result',
              'farthest_error_position', 'saw_separator', 'letval']
KNOWN_FILE = os.path.join(runner.ROOT, 'known_c20_pairs.json')


def suspicious_names():
    import sourcer.expressions as ex
    names = []
    for b in TEMP_BASES:
        names.append(b)
        for n in range(1, 7):
            names.append(b + str(n))
    names += [n for n in dir(builtins) if n.isidentifier()]
    m0, _ = sut.compile_grammar('start = "a"')
    names += list(vars(m0))
    names += dir(ex)
    names += ['self', 'text', 'pos', 'Start', 'start', 'START', 'ignore', 'ignored', 'let', 'where', 'between', 'grammar',
              'extends', 'override', 'overrides', 'requires', 'left', 'right', 'infix', 'prefix', 'postfix', 'mixfix', 'True_',
              'Nonex', 'Falsey', 'i', 'I', 'b', 'B', 'fullparse', 'memo', 'stack', 'key', 'gtor', 'result', 'cls', 'kw',
              'field', 'node', 'visited', 'callbacks', 'updates', 'was', 'now', 'title', 'line', 'col', 'excerpt', 'details',
              'ctx', 'args', 'kwargs', 'status', 'other', 'fields', 'name', 'definition', 'message', 'index', 'column']
    for r in ('Tok', 'Use', 'Box', 'Gen', 'Pair', 'start'):
        names += ['parse_' + r, 'try_' + r, 'raise_error_' + r]
    names += ['parse_function_1', 'parse_function_2', 'raise_error1', 'raise_error2', 'anonymous_1', 'ignored_', 'try_', 'run',
              'hash_', 'nt', 'compile_re', 'IGNORECASE', 'Metadata', 'Context', 'Position', 'PositionInfo', 'ParseFunction',
              'StringLiteral', 'ByteLiteral', 'Traversing', 'super_ctx']
    # every identifier that occurs in the module generated for the base grammar (so that a new
    # temporary, helper or global of the generator is tried as a user name automatically)
    import io
    import tokenize
    for bg in (BASE, BASE2):
        mb, _ = sut.compile_grammar(peg.render(bg), include_source=True)
        if mb is not None:
            try:
                for tok in tokenize.generate_tokens(io.StringIO(mb._source_code).readline):
                    if tok.type == tokenize.NAME:
                        names.append(tok.string)
            except tokenize.TokenError:
                pass
    out = sorted(set(n for n in names if n.isidentifier() and not keyword.iskeyword(n) and not n.startswith('_')
                     and n not in API and n not in ROLES.values() and n not in ROLES2.values()
                     and n not in ('Num', 'Lst', 'second', 'item', 'tag', 'cells', 'tagr', 'Idt', 'ipar', 'Tpl', 'capa', 'capb', 'capc', 'cnt',
                                   'w', 'v')))
    return out


def outcomes(g, mapping=None, inputs=None, entry_calls=None):
    inputs = INPUTS if inputs is None else inputs
    entry_calls = ENTRY_CALLS if entry_calls is None else entry_calls
    mod, err = sut.compile_grammar(peg.render(g))
    if mod is None:
        return ('COMPILE',) + tuple(err[:2])
    hung = [False]

    def run(*a, **kw):
        # after the first hang the remaining calls are not made (each would cost the full budget)
        if hung[0]:
            return ('SKIPPED-AFTER-HANG',)
        o = sut.run(*a, **kw)
        if o[0] == 'HANG':
            hung[0] = True
        return o
    out = [run(mod, None, t, budget=3.0) for t in inputs]
    mapping = mapping or {}
    for name, args, texts in entry_calls:
        try:
            obj = getattr(mod, mapping.get(name, name))
            fn = obj.parse(*args) if args is not None else obj.parse
        except Exception as e:
            out.extend([('EXC', 'entry:' + type(e).__name__)] * len(texts))
            continue
        for t in texts:
            out.append(run(mod, None, t, budget=3.0, fn=fn))
            out.append(run(mod, None, 'zz' + t, 2, False, budget=3.0, fn=fn))
    return tuple(out)


_base_out = {}


def matrix_of(role):
    if role.startswith('h:'):
        return BASE2, ROLES2, INPUTS2, ENTRY_CALLS2
    return BASE, ROLES, INPUTS, ENTRY_CALLS


def base_outcomes(role='rule'):
    bg, roles, inputs, calls = matrix_of(role)
    k = id(bg)
    if k not in _base_out:
        _base_out[k] = outcomes(bg, None, inputs, calls)
        if _base_out[k][0][0] != 'OK' or _base_out[k][1][0] != 'OK':
            raise RuntimeError('base grammar does not parse its first inputs: %r' % (_base_out[k][:2],))
    return _base_out[k]


def check_pair(role, new):
    """None if renaming ROLES[role] -> new changes nothing but names, else a short description."""
    bg, roles, inputs, calls = matrix_of(role)
    old = roles[role]
    g = renaming.rename_grammar(bg, {old: new})
    out = outcomes(g, {old: new}, inputs, calls)
    cm = {old: new} if role in CLASS_ROLES else {}
    fm = {old: new} if role in FIELD_ROLES else {}
    want = tuple((o[0], renaming.map_canon(o[1], cm, fm)) + tuple(o[2:]) if o[0] in ('OK', 'PARTIAL') else o
                 for o in base_outcomes(role))
    if out == want:
        return None
    if out[0] == 'COMPILE':
        return 'Grammar() raises %s' % (out[2] if len(out) > 2 else out[1])
    labels = list(inputs) + ['%s.parse%s(%r%s)' % (n, '' if a is None else repr(a), t, k) for n, a, ts in calls
                             for t in ts for k in ('', ', pos=2, fullparse=False')]
    for t, o, w in zip(labels, out, want):
        if o != w:
            return 'parse(%r) -> %s instead of %s' % (t, ':'.join(str(x)[:60] for x in o[:2]), w[0])
    return 'differs'


ALL_ROLES = dict(ROLES, **ROLES2)


def load_known():
    with open(KNOWN_FILE) as f:
        return {r: set(v) for r, v in json.load(f)['pairs'].items()}


# families of names excluded from the random part (conservative patterns around F21a-f)
def in_known_family(name):
    import sourcer.expressions as ex
    if re.fullmatch('(%s)\\d*' % '|'.join(TEMP_BASES), name):
        return True
    if name in dir(builtins) or hasattr(ex, name):
        return True
    if name.lower() in ('start', 'self', 'let', 'in', 'where', 'between', 'grammar', 'extends', 'ignore', 'ignored', 'override',
                        'overrides', 'class', 'requires', 'pass', 'left', 'right', 'infix', 'prefix', 'postfix', 'mixfix'):
        return True
    if name.startswith(('True', 'False', 'None')):
        return True
    m0, _ = sut.compile_grammar('start = "a"')
    if name in vars(m0):
        return True
    return False


LOOKALIKES = ['value_2', 'Item1x', 'lenx', 'xlen', 'parse_Tok', 'try_Tok', 'try_R0', 'parse_R0', 'ctx', 'memo', 'stack', 'key', 'gtor',
              'result', 'text', 'pos', 'status', 'fullparse', 'cls', 'kw', 'node', 'visited', 'title', 'line', 'col', 'excerpt',
              'details', 'parse_function_1', 'raise_error1', 'anonymous_1', 'run', 'nt', 'compile_re', 'Metadata', 'Context',
              'Position', 'ParseFunction', 'StringLiteral', 'super_ctx', 'other', 'fields', 'name', 'definition', 'message',
              'index', 'column', 'values', 'items2x', 'stagingx', 'checkpoint_', 'Infix_', 'parse_', 'Visit', 'Traverse']
NEUTRAL = ['alpha', 'Beta', 'gamma_1', 'Delta2', 'eps', 'Zeta', 'eta', 'Theta', 'iota9', 'Kappa', 'lam', 'Mu', 'nu_', 'Xi', 'omi',
           'Pi3', 'rho', 'Sigma', 'tau', 'Ups', 'phi', 'Chi', 'psi', 'Omega', 'aa', 'Bb', 'cc1', 'Dd', 'ee', 'Ff', 'gg', 'Hh', 'jj',
           'Kk', 'll', 'Mm', 'nn', 'Oo', 'pp', 'Qq', 'rr', 'Ss', 'tt', 'Uu', 'vv', 'Ww', 'xx', 'Yy', 'zz', 'q1', 'q2', 'q3', 'q4']


def field_and_class_names(g):
    fields, classes = set(), set()
    for r in g.rules:
        if r[0] == 'class':
            classes.add(r[1])
            for mk, mn, e in r[3]:
                if mn and mk == 'field':
                    fields.add(mn)
    return fields, classes


def grammar_names(g):
    """All user-chosen names of a rich grammar, with roles (for class/field mapping)."""
    names = {}
    for r in g.rules:
        if r[1].lower() != 'start':
            names[r[1]] = 'class' if r[0] == 'class' else 'rule'
        for p in (r[2] or []):
            names.setdefault(p, 'param')
        if r[0] == 'class':
            for mk, mn, e in r[3]:
                if mn:
                    names.setdefault(mn, 'field' if mk == 'field' else 'letfield')
        for e in peg.rule_exprs(r):
            for x in peg.walk(e):
                if x[0] == 'let':
                    names.setdefault(x[1], 'letvar')
    for n, e in g.ignores:
        if n:
            names[n] = 'rule'
    return names


class C20(Check):
    id = 'C20'
    technique = 'PBT: exhaustive role x suspicious-name matrix on a feature-rich grammar + hypothesis random grammars x random injective renamings; rename relation on the AST (inline Python renamed by tokenising)'
    rule = ('cases = (grammar, injective renaming, input); (i) matrix: each of 16 roles (rule, rule used as argument, template, '
            'class, class with parser parameters, class with value parameters, two fields, let field, parser/value parameters of a rule and of classes, let variable) '
            'of a fixed feature-rich grammar renamed to each of ~500 suspicious names: every identifier occurring in the module generated for that grammar, every temporary base the generator '
            'allocates with suffix 0-6, every Python builtin, every global of a generated module, every attribute of '
            'sourcer.expressions, DSL words, self/text/pos/Start, parse_<rule>/try_<rule>-style names; outcomes of module-level parse on 12 inputs and of every kind of entry point (R.parse, C.parse, C.parse(args)(text), with pos and fullparse) '
            'must equal the unrenamed outcomes with class/field names mapped. Pairs that fail on the pinned tree are listed in '
            'known_c20_pairs.json (known findings F21a-f) and any other failing pair is a violation. (ii) hypothesis: rich '
            'grammars with ALL user names renamed at once through a random injective map into neutral names and look-alikes '
            'outside the known families. Non-trivial iff a suspicious (non-neutral) name is used in a role where it is not a '
            'known finding; distinct by (role, name) resp. (grammar text, renaming).')
    assumptions = ['names start with a letter, are not Python keywords and not names of the documented module API',
                   'the random part avoids the known families by pattern (temporaries, builtins, runtime globals, '
                   'sourcer.expressions attributes, DSL words, True/False/None prefixes)']
    budget_quick = 170
    budget_thorough = 1500
    exhaustive = True

    def tasks(self, tier, seed):
        names = suspicious_names()
        tasks = []
        chunk = 12
        for role in ALL_ROLES:
            for i in range(0, len(names), chunk * 4):
                tasks.append(('matrix', role, names[i:i + chunk * 4]))
        n = 16 if tier == 'quick' else 64
        for s in range(n):
            tasks.append(('hyp', seed * 1000003 + s, 25 if tier == 'quick' else 150))
        return tasks

    def run_task(self, task):
        res = Result()
        if task[0] == 'matrix':
            _, role, names = task
            known = load_known().get(role, set())
            for new in names:
                if runner.time_left() < 0:
                    res.truncated = True
                    break
                why = check_pair(role, new)
                res.evals += 1
                if new in known:
                    res.excluded += 1
                    if why is None:
                        res.hist['known_pair_now_passes'] += 1
                    continue
                res.nontrivial.add(h64(role, new))
                if len(res.samples) < 1:
                    res.sample({'role': role, 'old': ALL_ROLES[role], 'new': new, 'holds': why is None})
                if why is not None:
                    res.mismatch({'role': role, 'new': new})
            return res
        from hypothesis import given, settings, seed, HealthCheck, Phase, strategies as st
        _, s, n = task
        pool = [x for x in LOOKALIKES if not in_known_family(x)] + NEUTRAL

        @seed(s)
        @settings(max_examples=n, database=None, deadline=None, phases=[Phase.generate],
                  suppress_health_check=list(HealthCheck), report_multiple_bugs=False)
        @given(gens_rich.rich_grammar(nrules=3, depth=3), st.permutations(pool), st.booleans(),
               st.lists(st.text(alphabet='ab12', min_size=1, max_size=7), min_size=25, max_size=25))
        def prop(g, perm, named, texts):
            if runner.over_budget(res):
                return
            names = grammar_names(g)
            olds = sorted(names)
            if len(olds) > len(perm):
                olds = olds[:len(perm)]
            mapping = {o: n2 for o, n2 in zip(olds, perm) if o != n2}
            # never map two names onto each other's old names (keep it injective and collision-free)
            taken = set(names) - set(mapping)
            mapping = {o: n2 for o, n2 in mapping.items() if n2 not in taken}
            g2 = renaming.rename_grammar(g, mapping)
            hdr1 = sut.fresh_name('vfc20a_') if named else None
            hdr2 = sut.fresh_name('vfc20b_') if named else None
            m1, e1 = sut.compile_grammar(peg.render(g.copy(header=hdr1)))
            m2, e2 = sut.compile_grammar(peg.render(g2.copy(header=hdr2)))
            case = {'g': peg.g_to_dict(g), 'mapping': sorted(mapping.items()), 'named': named, 'text': ''}
            try:
                if m1 is None:
                    return
                if m2 is None:
                    res.evals += 1
                    res.mismatch(case)
                    return
                fields, classes = field_and_class_names(g)
                cm = {o: n2 for o, n2 in mapping.items() if o in classes}
                fm = {o: n2 for o, n2 in mapping.items() if o in fields}
                inputs = gens.all_inputs('ab12', 3) + texts
                entries = [e for e in gens_rich.entry_points(g) if e[0] in 'RKFs'][:6]
                for ent in entries:
                    f1 = sut.entry(m1, ent)
                    try:
                        f2 = sut.entry(m2, mapping.get(ent, ent))
                    except AttributeError:
                        res.mismatch(dict(case, entry=ent))
                        return
                    for t in inputs:
                        a = sut.run(m1, None, t, budget=diff.QUICK_BUDGET, fn=f1)
                        b = sut.run(m2, None, t, budget=diff.QUICK_BUDGET, fn=f2)
                        res.evals += 1
                        want = (a[0], renaming.map_canon(a[1], cm, fm)) + tuple(a[2:]) if a[0] in ('OK', 'PARTIAL') else a
                        if any(n2 in LOOKALIKES for n2 in mapping.values()):
                            res.nontrivial.add(h64(repr(case['mapping'])[:400], ent, t))
                        if b != want:
                            res.mismatch(dict(case, entry=ent, text=t))
                            return
                if len(res.samples) < 1:
                    res.sample({'renaming': sorted(mapping.items())[:12], 'named': named})
            finally:
                for h in (hdr1, hdr2):
                    if h:
                        sut.forget(h)
        prop()
        return res

    def replay(self, case):
        if 'role' in case:
            why = check_pair(case['role'], case['new'])
            if why is None:
                return None
            return {'bucket': 'rename:%s' % case['role'], 'role': case['role'], 'old_name': ALL_ROLES[case['role']],
                    'new_name': case['new'], 'what': why}
        g = peg.g_from_dict(case['g'])
        mapping = dict(case['mapping'])
        names = grammar_names(g)
        g2 = renaming.rename_grammar(g, mapping)
        hdr1 = sut.fresh_name('vfc20a_') if case.get('named') else None
        hdr2 = sut.fresh_name('vfc20b_') if case.get('named') else None
        try:
            m1, e1 = sut.compile_grammar(peg.render(g.copy(header=hdr1)))
            m2, e2 = sut.compile_grammar(peg.render(g2.copy(header=hdr2)))
            if m1 is None:
                return None
            if m2 is None:
                return {'bucket': 'renamed-grammar-does-not-compile', 'got': list(e2), 'mapping': case['mapping'],
                        'renamed': peg.render(g2)}
            ent = case.get('entry')
            fields, classes = field_and_class_names(g)
            cm = {o: n2 for o, n2 in mapping.items() if o in classes}
            fm = {o: n2 for o, n2 in mapping.items() if o in fields}
            try:
                f1, f2 = sut.entry(m1, ent), sut.entry(m2, mapping.get(ent, ent))
            except AttributeError as e:
                return {'bucket': 'renamed-entry-missing', 'detail': str(e)}
            t = case.get('text', '')
            a = diff.run_confirmed(m1, None, t, fn=f1)
            b = diff.run_confirmed(m2, None, t, fn=f2)
            want = (a[0], renaming.map_canon(a[1], cm, fm)) + tuple(a[2:]) if a[0] in ('OK', 'PARTIAL') else a
            if b == want:
                return None
            return {'bucket': 'renaming-changes-outcome', 'original': list(a), 'renamed': list(b), 'mapping': case['mapping'],
                    'grammar': peg.render(g), 'renamed_grammar': peg.render(g2), 'entry': ent, 'input': t}
        finally:
            for h in (hdr1, hdr2):
                if h:
                    sut.forget(h)

    def shrink(self, case, still_fails, deadline):
        if 'role' in case:
            return case
        best = dict(case)
        mp = list(best['mapping'])
        i = 0
        import time
        while i < len(mp) and time.time() < deadline:
            c = dict(best)
            c['mapping'] = mp[:i] + mp[i + 1:]
            if still_fails(c):
                mp = c['mapping']
                best = c
            else:
                i += 1
        return best

    def describe(self, case):
        if 'role' in case:
            bg, roles, inputs, calls = matrix_of(case['role'])
            return {'role': case['role'], 'old_name': roles[case['role']], 'new_name': case['new'],
                    'grammar': peg.render(renaming.rename_grammar(bg, {roles[case['role']]: case['new']})), 'inputs': inputs}
        g = peg.g_from_dict(case['g'])
        return {'grammar': peg.render(g), 'mapping': case['mapping'], 'entry': case.get('entry'), 'input': case.get('text')}


if __name__ == '__main__':
    sys.exit(runner.main(C20()))
