"""C02 - operator tables build the tree dictated by precedence and associativity.
Oracles: (a) greedy scanner + precedence climbing reference (vlib/optab.py);
(b) reference-free validity: in-order reading of the returned tree reproduces the consumed
text, and precedence/associativity hold along the spines.  DESIGN.md 4/C02."""
import sys
import random
import itertools

from vlib import runner, peg, gens, sut, shrink, diff, optab
from vlib.runner import Check, Result, h64

SPELLINGS = ['+', '-', '*', '!', '<', '++', '+-', '~', '<=']
ASSOCS = ['left', 'right', 'infix', 'prefix', 'postfix', 'left', 'infix', 'prefix', 'postfix', 'right']


def nontrivial(ev):
    return bool(ev.get('multi_row') or ev.get('dangling_op') or ev.get('nonassoc_conflict'))


def make_grammar(rows, operand_kind, use_ignore, mix):
    """rows: [(assoc, [spellings])]; mix: 0 none, 1 parens, 2 parens + two-keyword form."""
    trows = []
    for a, ops in rows:
        trows.append((a, [('lit', o) for o in ops]))
    if mix >= 1:
        trows.insert(min(len(trows), mix), ('mixfix', [('left', ('right', ('lit', '('), ('ref', 'E')), ('lit', ')'))]))
    if mix >= 2:
        trows.append(('mixfix', [('seq', [('lit', '['), ('ref', 'E'), ('lit', ':'), ('ref', 'E'), ('lit', ']')])]))
    rules = []
    if operand_kind == 'ref':
        rules.append(('rule', 'N', None, ('rx', '[0-9]')))
        operand = ('ref', 'N')
    elif operand_kind == 'class':
        rules.append(('class', 'N', None, [('field', 'v', ('rx', '[0-9]'))]))
        operand = ('ref', 'N')
    elif operand_kind == 'lit':
        operand = ('lit', '1')
    else:
        operand = ('rx', '[0-9]')
    rules.append(('rule', 'E', None, ('optable', operand, trows)))
    rules.append(('rule', 'start', None, ('ref', 'E')))
    # exposing contexts: the rest-of-input regex shows where the table left the position
    rest = ('rx', '(?s).*')
    # (the table is inlined: a rule reference is always assumed to be able to fail after
    # consuming, which would hide a wrong flag of the table itself)
    tab = ('optable', operand, trows)
    rules.append(('rule', 'C1', None, ('choice', [tab, rest])))
    rules.append(('rule', 'C2', None, ('seq', [('skip', [tab]), rest])))
    rules.append(('rule', 'C3', None, ('seq', [('rep', tab, 0, None), rest])))
    ign = [(None, ('lit', ' '))] if use_ignore else []
    return peg.G(rules, ignores=ign)


def token_alphabet(rows, operand_kind, use_ignore, mix):
    toks = sorted({o for a, ops in rows for o in ops})
    toks += ['1'] if operand_kind == 'lit' else ['1', '2']
    if mix >= 1:
        toks += ['(', ')']
    if mix >= 2:
        toks += ['[', ':', ']']
    if use_ignore:
        toks.append(' ')
    return toks


def table_strategy():
    from hypothesis import strategies as st

    @st.composite
    def tables(draw):
        nrows = draw(st.integers(1, 5))
        seen = {'prefix': set(), 'postfix': set(), 'inf': set()}
        rows = []
        for _ in range(nrows):
            a = draw(st.sampled_from(ASSOCS))
            kind = a if a in ('prefix', 'postfix') else 'inf'
            pool = [s for s in (SPELLINGS[:5] if draw(st.integers(0, 9)) < 6 else SPELLINGS) if s not in seen[kind]]
            if not pool:
                continue
            k = draw(st.integers(1, min(3, len(pool))))
            ops = draw(st.permutations(pool))[:k]
            for o in ops:
                seen[kind].add(o)
            rows.append((a, list(ops)))
        if not rows:
            rows = [('left', ['+'])]
        operand_kind = draw(st.sampled_from(['ref', 'ref', 'lit', 'class', 'rx']))
        use_ignore = draw(st.integers(0, 3)) == 0
        mix = draw(st.sampled_from([0, 0, 1, 1, 2]))
        return rows, operand_kind, use_ignore, mix
    return tables()


def validity(g, t, got, raw):
    """Oracle (b): reference-free checks on sourcer's own output."""
    if got[0] not in ('OK', 'PARTIAL'):
        return None
    val = raw.partial_result if got[0] == 'PARTIAL' else raw
    end = got[2] if got[0] == 'PARTIAL' else len(t)
    table = g.ruledict()['E'][3]
    rows = table[2]
    has_mix = any(a == 'mixfix' for a, _ in rows)
    leaves = optab.inorder(val)
    flat = []
    for x in leaves:
        if hasattr(x, '_fields') and hasattr(x, '_metadata') and type(x).__name__ == 'N':
            flat.append(x.v)
        elif isinstance(x, str):
            flat.append(x)
        elif isinstance(x, list):      # two-keyword mixfix operand: nested results
            return None if has_mix else 'leaf'
        else:
            return 'leaf-type'
    consumed = t[:end].replace(' ', '')
    if not has_mix and ''.join(flat) != consumed:
        return 'inorder-reading'
    # spine conditions (a mixfix operand is atomic although its value is a tree, so they
    # are only checked for tables without mixfix rows)
    if has_mix:
        return None
    rowof = {}
    for i, (a, ops) in enumerate(rows):
        kind = a if a in ('prefix', 'postfix', 'mixfix') else 'inf'
        for o in ops:
            if o[0] == 'lit':
                rowof[(kind, o[1])] = (i, a)

    def node_row(x):
        nm = type(x).__name__
        if not (hasattr(x, '_fields') and hasattr(x, '_metadata')):
            return None
        if nm == 'Infix':
            return rowof.get(('inf', x.operator))
        if nm == 'Prefix':
            return rowof.get(('prefix', x.operator))
        if nm == 'Postfix':
            return rowof.get(('postfix', x.operator))
        return None
    stack = [val]
    while stack:
        x = stack.pop()
        nm = type(x).__name__
        if not (hasattr(x, '_fields') and hasattr(x, '_metadata')) or nm == 'N':
            continue
        r = node_row(x)
        if r is None:
            return 'unknown-operator'
        row, assoc = r
        if nm == 'Infix':
            # left child: an Infix there must bind tighter, or equal with left associativity
            lc = x.left
            if type(lc).__name__ == 'Infix':
                lr = node_row(lc)
                if lr and not (lr[0] < row or (lr[0] == row and assoc == 'left')):
                    return 'left-spine'
            if type(lc).__name__ == 'Prefix':
                lr = node_row(lc)
                if lr and not lr[0] < row:
                    return 'left-spine-prefix'
            rc = x.right
            if type(rc).__name__ == 'Infix':
                rr = node_row(rc)
                if rr and not (rr[0] < row or (rr[0] == row and assoc == 'right')):
                    return 'right-spine'
            if type(rc).__name__ == 'Postfix':
                rr = node_row(rc)
                if rr and not rr[0] < row:
                    return 'right-spine-postfix'
            stack.extend([x.left, x.right])
        elif nm == 'Prefix':
            rc = x.right
            if type(rc).__name__ in ('Infix', 'Postfix'):
                rr = node_row(rc)
                if rr and not rr[0] < row:
                    return 'prefix-operand'
            stack.append(x.right)
        elif nm == 'Postfix':
            lc = x.left
            if type(lc).__name__ in ('Infix', 'Prefix'):
                lr = node_row(lc)
                if lr and not lr[0] < row:
                    return 'postfix-operand'
            stack.append(x.left)
    return None


class C02(Check):
    id = 'C02'
    technique = 'PBT: hypothesis-generated operator tables x exhaustive short token sequences; precedence-climbing reference + reference-free validity predicate'
    rule = ('cases = (table, token sequence); tables: 1-5 rows of left/right/infix/prefix/postfix (+0-2 mixfix rows), '
            '1-3 operators per row from a colliding spelling pool (+ - * ! < ++ +- ~ <=, shared between prefix, infix '
            'and postfix rows, prefixes of one another), operand = rule reference / class / literal / regex, with or '
            'without an ignore pattern; inputs: all token sequences up to the length that keeps <= ~3000 per table, '
            'plus random ones up to 12 tokens. Non-trivial iff the reference trace has >= 2 operators from >= 2 rows, a '
            'dangling operator, or a non-associative repeat; distinct by (table text, input).')
    assumptions = ['operator spellings are unique within a kind (ties inside one kind are not specified by the statement)',
                   'reference: vlib/optab.py (scanner + precedence climbing), independent of shunting-yard']
    budget_quick = 150
    budget_thorough = 1500

    def tasks(self, tier, seed):
        n = 16 if tier == 'quick' else 64
        per = 60 if tier == 'quick' else 400
        return [('hyp', seed * 1000003 + s, per, 1200 if tier == 'quick' else 8000) for s in range(n)]

    def run_task(self, task):
        from hypothesis import given, settings, seed, HealthCheck, Phase, strategies as st
        res = Result()
        _, s, n, maxseq = task

        @seed(s)
        @settings(max_examples=n, database=None, deadline=None, phases=[Phase.generate],
                  suppress_health_check=list(HealthCheck), report_multiple_bugs=False)
        @given(table_strategy(), st.data())
        def prop(tab, data):
            rows, operand_kind, use_ignore, mix = tab
            g = make_grammar(rows, operand_kind, use_ignore, mix)
            alpha = token_alphabet(rows, operand_kind, use_ignore, mix)
            L = 1
            while sum(len(alpha) ** k for k in range(L + 2)) <= maxseq and L < 7:
                L += 1
            inputs = [''.join(p) for k in range(L + 1) for p in itertools.product(alpha, repeat=k)]
            longer = data.draw(st.lists(st.lists(st.sampled_from(alpha), min_size=L + 1, max_size=12).map(''.join),
                                        min_size=30, max_size=30))
            # structured sentences: P* O S* (I P* O S*)* built from the table's own tokens,
            # then possibly truncated / extended by one token (dangling and malformed tails)
            pre = [o for a, ops in rows if a == 'prefix' for o in ops]
            post = [o for a, ops in rows if a == 'postfix' for o in ops]
            inf = [o for a, ops in rows if a in ('left', 'right', 'infix') for o in ops]
            opd = ['1'] if operand_kind == 'lit' else ['1', '2']

            def sentence(depth=0):
                out = []
                for i in range(data.draw(st.integers(1, 5))):
                    if i:
                        if not inf:
                            break
                        out.append(data.draw(st.sampled_from(inf)))
                    if pre:
                        for _ in range(data.draw(st.sampled_from([0, 0, 1, 1, 2]))):
                            out.append(data.draw(st.sampled_from(pre)))
                    if mix >= 1 and depth < 2 and data.draw(st.integers(0, 4)) == 0:
                        out.append('(')
                        out.extend(sentence(depth + 1))
                        out.append(')')
                    elif mix >= 2 and depth < 2 and data.draw(st.integers(0, 6)) == 0:
                        out.append('[')
                        out.extend(sentence(depth + 1))
                        out.append(':')
                        out.extend(sentence(depth + 1))
                        out.append(']')
                    else:
                        out.append(data.draw(st.sampled_from(opd)))
                    if post:
                        for _ in range(data.draw(st.sampled_from([0, 0, 1, 1, 2]))):
                            out.append(data.draw(st.sampled_from(post)))
                return out
            for _ in range(60):
                sent = sentence()
                how = data.draw(st.integers(0, 5))
                if how == 1 and len(sent) > 1:
                    sent = sent[:data.draw(st.integers(1, len(sent) - 1))]
                elif how == 2:
                    sent = sent + [data.draw(st.sampled_from(alpha))]
                elif how == 3 and len(sent) > 1:
                    i = data.draw(st.integers(0, len(sent) - 1))
                    sent = sent[:i] + sent[i + 1:]
                sep = ' ' if use_ignore and data.draw(st.booleans()) else ''
                longer.append(sep.join(sent))
            if runner.over_budget(res):
                return
            res.hist['tables'] += 1
            res.hist['rows_%d' % len(rows)] += 1
            res.hist['operand_' + operand_kind] += 1
            kinds = {}
            for a, ops in rows:
                for o in ops:
                    kinds.setdefault(o, set()).add(a if a in ('prefix', 'postfix') else 'inf')
            if any(len(v) > 1 for v in kinds.values()):
                res.hist['tables_with_shared_spelling'] += 1

            def extra(name, t, exp, got, raw):
                return validity(g, t, got, raw) if name == 'start' else None
            diff.eval_grammar(res, g, ['start', 'C1', 'C2', 'C3'], inputs + longer, nontrivial, 'c02', extra_check=extra, key_whole=True)
        try:
            prop()
        except runner.StopTask:
            pass
        return res

    def replay(self, case):
        g = peg.g_from_dict(case['g'])

        def extra(name, t, exp, got, raw):
            return validity(g, t, got, raw) if name == 'start' and 'E' in g.ruledict() and g.ruledict()['E'][3][0] == 'optable' else None
        return diff.replay_case(case, extra_check=extra)

    def shrink(self, case, still_fails, deadline):
        def ok(c):
            g = peg.g_from_dict(c['g'])
            rd = g.ruledict()
            if c['entry'] not in rd or 'E' not in rd or rd['E'][3][0] != 'optable':
                return False
            if not rd['E'][3][2] or any(not ops for _, ops in rd['E'][3][2]):
                return False
            seen = set()
            for a, ops in rd['E'][3][2]:
                kind = a if a in ('prefix', 'postfix', 'mixfix') else 'inf'
                for o in ops:
                    if a != 'mixfix' and (o[0] != 'lit' or not o[1] or (kind, o[1]) in seen):
                        return False
                    seen.add((kind, o[1]))
            return diff.wellformed(g) and still_fails(c)
        return shrink.shrink_case(case, ok, deadline)

    def describe(self, case):
        g = peg.g_from_dict(case['g'])
        return {'grammar': peg.render(g), 'entry': case['entry'], 'input': repr(case.get('text'))}

    def selftest(self):
        from selftest import test_peg, test_optab
        test_peg.run()
        test_optab.run()


if __name__ == '__main__':
    sys.exit(runner.main(C02()))
