"""C05 - bound names and data-dependent predicates see the values parsed earlier.
Oracle: reference interpreter with an explicit, functionally updated environment.
DESIGN.md 4/C05."""
import sys

from vlib import runner, peg, gens, gens_rich, sut, shrink, diff
from vlib.runner import Check, Result, h64


def nontrivial(ev):
    return bool(ev.get('read_after_rebind'))


def inputs_for(data, st):
    base = gens.all_inputs('ab12', 4)
    extra = data.draw(st.lists(st.text(alphabet='ab12Z', min_size=1, max_size=8), min_size=40, max_size=40))
    return base + extra


class C05(Check):
    id = 'C05'
    technique = 'PBT: hypothesis grammars with let/class fields/parameters/where/|>/<|/symbolic counts; reference interpreter with functional environments'
    rule = ('cases = (grammar, entry rule or class, input); grammars: 4 generated rules + 1-2 generated classes (plain, '
            'let, pass, requires members) + 0-2 generated templates + a fixed template library, built from let, where, '
            '|>, <|, inline Python over bound names, symbolic counts {n}, {,n}, {`n+1`}, calls with bound names as '
            'arguments; names are reused across alternatives, iterations, recursive and sibling invocations, and '
            'shadowed anywhere and read again after the shadowing scope; inputs: all strings of length <= 4 over {a,b,1,2} plus 40 random ones up to '
            'length 8 over {a,b,1,2,Z}. Non-trivial iff the reference trace reads a name that was bound to >= 2 '
            'different values during the same parse call; distinct by (rule text, input).')
    assumptions = ['inline Python comes from a closed language the oracle can evaluate']
    budget_quick = 150
    budget_thorough = 1500

    def tasks(self, tier, seed):
        n = 16 if tier == 'quick' else 64
        per = 60 if tier == 'quick' else 400
        return [('hyp', seed * 1000003 + s, per) for s in range(n)]

    def run_task(self, task):
        from hypothesis import given, settings, seed, HealthCheck, Phase, strategies as st
        res = Result()
        _, s, n = task

        @seed(s)
        @settings(max_examples=n, database=None, deadline=None, phases=[Phase.generate],
                  suppress_health_check=list(HealthCheck), report_multiple_bugs=False)
        @given(gens_rich.rich_grammar(nrules=4, depth=3), st.data())
        def prop(g, data):
            entries = [e for e in gens_rich.entry_points(g) if e[0] in 'RKsF']
            ins = inputs_for(data, st)
            if runner.over_budget(res):
                return
            diff.eval_grammar(res, g, entries, ins, nontrivial, 'c05')
            res.hist['grammars'] += 1
            for k in peg.kinds(g):
                res.hist['kind_' + k] += 1
        try:
            prop()
        except runner.StopTask:
            pass
        return res

    def replay(self, case):
        return diff.replay_case(case)

    def shrink(self, case, still_fails, deadline):
        def ok(c):
            g = peg.g_from_dict(c['g'])
            return c['entry'] in g.ruledict() and diff.wellformed(g) and still_fails(c)
        return shrink.shrink_case(case, ok, deadline)

    def describe(self, case):
        g = peg.g_from_dict(case['g'])
        return {'grammar': peg.render(g), 'entry': case['entry'], 'input': repr(case.get('text'))}

    def selftest(self):
        from selftest import test_peg
        test_peg.run()


if __name__ == '__main__':
    sys.exit(runner.main(C05()))
