"""C13 - inheritance: overrides are late-bound, super is the parent, parent untouched.
Histories (hypothesis RuleBasedStateMachine): create base grammars, derive (chains <= 3,
siblings, dotted names), parse through any module in any order.  Oracle: the chain is
flattened on the AST (late binding = most-derived definition, super.R = private copy of the
parent level's R, ignore declarations united), compiled stand-alone by sourcer and evaluated
by the reference interpreter; invariant: every earlier module still answers its probe set
exactly as when it was created.  DESIGN.md 4/C13."""
import sys
import itertools

from vlib import runner, peg, gens, sut, diff
from vlib.runner import Check, Result, h64

ORDER = ['Item', 'Word', 'Pair', 'Items', 'Wrap', 'Extra', 'start']
IGNORES = [('Space', ('rx', ' +')), (None, ('lit', ';')), ('Tab', ('lit', '\t')), (None, ('rx', '#[^\\n]*'))]
_uid = itertools.count()


# ------------------------------------------------------------------ level specs (data)
# A level = {'defs': {name: rule}, 'ignores': [idx..], 'dotted': bool}; super references are
# spelled ('ref', 'super.X') / ('call', 'super.Wrap', ..).

def tok_strategy(st):
    return st.sampled_from([('lit', 'a'), ('lit', 'b'), ('lit', 'c'), ('rx', '[ab]'), ('rx', 'a+'), ('lit', 'ab'),
                            ('ci', 'B')])


def body_strategy(st, name, level0, parent_has):
    """Body of `name`; may use super.<name> when deriving from a level that has it."""
    tok = tok_strategy(st)
    sup = ('ref', 'super.' + name)
    can_super = (not level0) and parent_has

    def with_super(s):
        if not can_super:
            return s
        return st.one_of(s, s.map(lambda e: ('choice', [e, sup])), s.map(lambda e: ('choice', [sup, e])),
                         s.map(lambda e: ('seq', [e, sup])).filter(lambda e: name in ('Item', 'Word')))
    if name in ('Item', 'Word'):
        return with_super(st.one_of(tok, st.tuples(tok, tok).map(lambda t: ('choice', list(t))),
                                    st.tuples(tok, tok).map(lambda t: ('right', t[0], t[1]))))
    if name == 'Items':
        elem = st.sampled_from([('ref', 'Item'), ('ref', 'Pair'), ('choice', [('ref', 'Pair'), ('ref', 'Item')]),
                                ('choice', [('ref', 'Word'), ('ref', 'Item')]), ('seq', [('ref', 'Item'), ('ref', 'Word')])])
        # sometimes nested so deeply that the generated code is split into helper functions: the
        # inner references must still be late-bound when the rule is inherited
        def deepen(t):
            e, d, kind = t
            for i in range(d):
                e = ('seq', [e]) if kind == 0 or i % 2 else ('choice', [e, ('lit', 'Q')])
            return e
        elem = st.tuples(elem, st.sampled_from([0, 0, 0, 0, 9, 18, 26]), st.integers(0, 1)).map(deepen)
        base = st.one_of(elem.map(lambda e: ('rep', e, 1, None)), elem.map(lambda e: ('rep', e, 0, 3)),
                         elem.map(lambda e: ('sep', e, ('lit', 'c'), False, False, True, False)))
        return with_super(base)
    if name == 'Extra':
        return st.sampled_from([('seq', [('ref', 'Items'), ('opt', ('ref', 'Word'))]), ('call', 'Wrap', [('ref', 'Item')], []),
                                ('choice', [('ref', 'Pair'), ('ref', 'Word')]), ('expect', ('ref', 'Item'))])
    if name == 'start':
        base = st.sampled_from([('ref', 'Items'), ('seq', [('ref', 'Items'), ('opt', ('ref', 'Pair'))]),
                                ('call', 'Wrap', [('ref', 'Items')], []), ('choice', [('ref', 'Pair'), ('ref', 'Items')]),
                                ('seq', [('opt', ('ref', 'Extra')), ('ref', 'Items')]),
                                ('seq', [('call', 'Wrap', [('ref', 'Word')], []), ('ref', 'Items')])])
        return with_super(base)
    raise ValueError(name)


def level_strategy(st, level0, parent_names, parent_has_ignore, used_ignores=()):
    @st.composite
    def lv(draw):
        defs = {}
        for name in ORDER:
            has = name in parent_names
            if level0:
                mode = 'define' if name != 'Extra' or draw(st.booleans()) else 'skip'
            else:
                if name == 'Extra' and not has:
                    mode = draw(st.sampled_from(['define', 'skip']))
                else:
                    mode = draw(st.sampled_from(['inherit', 'inherit', 'override', 'override']))
            if mode in ('skip', 'inherit'):
                continue
            if name == 'Pair':
                members = [('field', 'left', ('ref', 'Item')), ('field', 'right', draw(st.sampled_from([('ref', 'Word'), ('opt', ('ref', 'Word')), ('ref', 'Item')])))]
                if draw(st.booleans()):
                    members.append(('field', 'mark', ('py', draw(st.sampled_from(['1', '"x"'])))))
                defs[name] = ('class', 'Pair', None, members)
            elif name == 'Wrap':
                body = draw(st.sampled_from([('seq', [('lit', 'a'), ('ref', 'x')]), ('seq', [('ref', 'x'), ('ref', 'x')]),
                                             ('left', ('ref', 'x'), ('opt', ('lit', 'c')))]))
                if (not level0) and has and draw(st.booleans()):
                    body = ('choice', [('call', 'super.Wrap', [('ref', 'x')], []), body])
                defs[name] = ('rule', 'Wrap', ['x'], body)
            else:
                defs[name] = ('rule', name, None, draw(body_strategy(st, name, level0, has)))
        if 'Extra' not in defs and 'Extra' not in parent_names:
            # start may not mention Extra then
            for nm in ('start',):
                if nm in defs and any(x == ('ref', 'Extra') for x in peg.walk(defs[nm][3])):
                    defs[nm] = ('rule', 'start', None, ('ref', 'Items'))
        ign = []
        if level0 or parent_has_ignore:
            k = draw(st.sampled_from([0, 0, 1, 1, 2]))
            free = [i for i in range(len(IGNORES)) if i not in used_ignores]
            ign = sorted(draw(st.permutations(free))[:k])
        if not defs and not ign:
            # a grammar needs at least one statement
            defs['Extra'] = ('rule', 'Extra', None, ('seq', [('ref', 'Items'), ('opt', ('ref', 'Word'))]))
        out = {'defs': defs, 'ignores': ign, 'dotted': draw(st.integers(0, 4)) == 0}
        if level0:
            # the start rule is recognised whatever its capitalisation - also as the INHERITED entry rule
            out['start_name'] = draw(st.sampled_from(['start', 'start', 'Start', 'START']))
        return out
    return lv()


# ------------------------------------------------------------------ flatten

def chain_has_ignore(chain):
    return any(lv['ignores'] for lv in chain)


def visible_def(chain, name, upto):
    for k in range(upto, -1, -1):
        if name in chain[k]['defs']:
            return k
    return None


def flatten(chain):
    """Stand-alone grammar equivalent to the most-derived level of `chain`."""
    top = len(chain) - 1
    out = {}
    order = []

    def materialise(name, level, public):
        k = visible_def(chain, name, level)
        if k is None:
            raise KeyError(name)
        newname = name if public else '%s__L%d' % (name, k)
        if newname in out:
            return newname
        out[newname] = None
        order.append(newname)
        r = chain[k]['defs'][name]

        def rw(n):
            if n[0] == 'ref' and n[1].startswith('super.'):
                return ('ref', materialise(n[1][6:], k - 1, False))
            if n[0] == 'call' and n[1].startswith('super.'):
                return ('call', materialise(n[1][6:], k - 1, False), [rw(a) for a in n[2]], [(kw, rw(a)) for kw, a in n[3]])
            kids = peg.children(n)
            if not kids:
                return n
            return peg.rebuild(n, [rw(c) for c in kids])
        if r[0] == 'rule':
            out[newname] = ('rule', newname, r[2], rw(r[3]))
        else:
            # a private copy of a class keeps its class name out of reach; classes are only
            # reached through super when overridden with a rule of another shape (not generated)
            out[newname] = ('class', newname, r[2], [(mk, mn, rw(e)) for mk, mn, e in r[3]])
        return newname
    names = []
    for lv in chain:
        for nm in lv['defs']:
            if nm not in names:
                names.append(nm)
    for nm in ORDER:
        if nm in names:
            materialise(nm, top, True)
    rules = [out[n] for n in order if not n.lower() == 'start'] + [out[n] for n in order if n.lower() == 'start']
    ign = []
    for lv in reversed(chain):
        for i in lv['ignores']:
            ign.append(IGNORES[i])
    return peg.G(rules, ignores=ign)


def start_name(chain):
    return chain[0].get('start_name', 'start')


def level_grammar(chain, name, parent_name):
    lv = chain[-1]
    rules = [lv['defs'][n] for n in ORDER if n in lv['defs']]
    sn = start_name(chain)
    if sn != 'start':
        def rw(n):
            if n[0] == 'ref' and n[1] == 'super.start':
                return ('ref', 'super.' + sn)
            kids = peg.children(n)
            return peg.rebuild(n, [rw(c) for c in kids]) if kids else n
        rules = [('rule', sn, r[2], rw(r[3])) if (r[0] == 'rule' and r[1] == 'start') else r for r in rules]
    ign = [IGNORES[i] for i in lv['ignores']]
    return peg.G(rules, ignores=ign, header=name, extends=parent_name)


def overridden_reachable(chain, entry):
    """Is something reachable from `entry` (as defined at its visible level) overridden at a
    more derived level?  (F13e: such inherited entry points are excluded.)"""
    top = len(chain) - 1
    k = visible_def(chain, entry, top)
    if any(lv['ignores'] for lv in chain[k + 1:]):
        return True      # a more derived level adds ignore patterns the inherited entry does not see
    # (name, level the name is looked up from): plain references are late-bound (looked up from the
    # top), `super.X` inside a definition at level j is looked up from level j - 1
    seen, todo = set(), [(entry, top)]
    while todo:
        n, upto = todo.pop()
        if (n, upto) in seen:
            continue
        seen.add((n, upto))
        kk = visible_def(chain, n, upto)
        if kk is None:
            continue
        if kk > k:
            return True
        r = chain[kk]['defs'][n]
        for e in peg.rule_exprs(r):
            for x in peg.walk(e):
                if x[0] in ('ref', 'call'):
                    if x[1].startswith('super.'):
                        if x[1][6:] in ORDER:
                            todo.append((x[1][6:], kk - 1))
                    elif x[1] in ORDER:
                        todo.append((x[1], top))
    return False


def inputs_for(chain):
    alpha = 'abc'
    extra = ''
    for lv in chain:
        for i in lv['ignores']:
            extra += {0: ' ', 1: ';', 2: '\t', 3: '#'}[i]
    extra = ''.join(sorted(set(extra)))
    ins = gens.all_inputs(alpha, 3)
    if extra:
        more = []
        for t in ins[1:40]:
            for e in extra:
                more.append(e + t)
                more.append(t[:1] + e + e + t[1:] + e)
        ins = ins + more
    else:
        ins = ins + gens.all_inputs(alpha, 4)[len(ins)::5]
    return ins


PROBES = ['', 'a', 'ab', 'abc', 'aab', 'ba', 'cab', 'a b', 'ab;c', 'bbb', 'acb', 'aa', 'b', 'c', 'abab']


class World:
    """Executes a history (list of plain-data operations) against sourcer; used both by the
    state machine and by replay."""

    def __init__(self, res=None):
        self.mods = []       # dicts: name, chain, module, flat module, flat grammar, probe answers, parent index
        self.res = res
        self.uid = next(_uid)
        self.problem = None
        self.trace = []

    def name_for(self, idx, dotted):
        base = 'vf13x%dx%dx%d' % (sut.os.getpid(), self.uid, idx)
        return ('vfpkg%d.%s' % (sut.os.getpid(), base)) if dotted else base

    def fail(self, bucket, **kw):
        if self.problem is None:
            self.problem = dict(kw, bucket=bucket)

    def probe(self, rec):
        out = []
        for t in PROBES:
            o = diff.run_confirmed(rec['module'], None, t)
            out.append(o)
            if o[0] == 'HANG':
                # stop: every further probe would pay the watchdog again
                if True:
                    self.fail('hang', module=rec['desc'], chain=[m['desc'] for m in self.ancestors(self.mods.index(rec))],
                              input=t)
                    break
        return out

    def create(self, level, parent=None):
        idx = len(self.mods)
        chain = ([] if parent is None else list(self.mods[parent]['chain'])) + [level]
        name = self.name_for(idx, level.get('dotted'))
        pname = None if parent is None else self.mods[parent]['name']
        g = level_grammar(chain, name, pname)
        desc = peg.render(g)
        if self.problem:
            # the history goes on growing as it would have (what the state machine draws next must
            # not depend on what sourcer did), but nothing more is executed once a problem is recorded
            self.mods.append({'name': name, 'chain': chain, 'module': None, 'desc': desc, 'parent': parent})
            return self.mods[-1]
        mod, err = sut.compile_grammar(desc)
        rec = {'name': name, 'chain': chain, 'module': mod, 'desc': desc, 'parent': parent}
        self.mods.append(rec)
        if mod is None:
            self.fail('compile:%s' % (err[1] if len(err) > 1 else err[0]), got=list(err), grammar=desc)
            return rec
        flat = flatten(chain)
        rec['flat'] = flat
        fm, ferr = sut.compile_grammar(peg.render(flat))
        if fm is None:
            self.fail('harness:flattened-grammar-does-not-compile', got=list(ferr), grammar=peg.render(flat))
            return rec
        rec['flatmod'] = fm
        rec['probes'] = self.probe(rec)
        self.check_untouched(skip=idx)
        return rec

    def check_untouched(self, skip=None):
        for i, rec in enumerate(self.mods):
            if i == skip or rec.get('probes') is None or self.problem:
                continue
            now = self.probe(rec)
            if now != rec['probes']:
                k = next(j for j, (a, b) in enumerate(zip(now, rec['probes'])) if a != b)
                self.fail('earlier-module-changed', module=rec['desc'], input=PROBES[k], before=list(rec['probes'][k]),
                          after=list(now[k]), after_creating=self.mods[-1]['desc'])

    def parse(self, mi, entry, text, force=False):
        rec = self.mods[mi % len(self.mods)]
        if rec.get('flatmod') is None or self.problem:
            return None
        chain = rec['chain']
        top = len(chain) - 1
        excluded = False
        if entry is not None:
            if visible_def(chain, entry, top) is None or chain[visible_def(chain, entry, top)]['defs'][entry][2] is not None:
                return None
            if visible_def(chain, entry, top) != top and overridden_reachable(chain, entry):
                excluded = True      # known finding F13e
        if excluded and not force:
            if self.res is not None:
                self.res.excluded += 1
            return 'excluded'
        # the very same text object first goes through the other members of the family: what one
        # member did with a text must not leak into what another makes of it
        family = self.ancestors(mi % len(self.mods))[:-1]
        for anc in family:
            sut.run(anc['module'], None, text, budget=diff.QUICK_BUDGET)
        got = diff.run_confirmed(rec['module'], start_name(chain) if entry == 'start' else entry, text)
        want = diff.run_confirmed(rec['flatmod'], entry, text)
        for anc in family:
            if anc.get('flatmod') is None:
                continue
            a = sut.run(anc['module'], None, text, budget=diff.QUICK_BUDGET)
            b = sut.run(anc['flatmod'], None, text, budget=diff.QUICK_BUDGET)
            if a != b and not (a[0] == 'FAIL' and b[0] == 'FAIL') and 'HANG' not in (a[0], b[0]):
                self.fail('ancestor-after-derived:%s-vs-%s' % (a[0], b[0]), through=anc['desc'], after=rec['desc'], input=text,
                          got=list(a), flattened=list(b))
        ref = None
        try:
            r = peg.Interp(rec['flat'], text).run_rule(rec['flat'].start_name() if entry is None else entry)
            ref = sut.expected(r, text)
        except (peg.StepLimit, peg.RefError, RecursionError, KeyError):
            pass
        tag = lambda o: o[0] if o[0] != 'EXC' else 'EXC:' + o[1]
        if got[0] == 'FAIL' and want[0] == 'FAIL':
            ok = True
        else:
            ok = got == want
        if not ok:
            self.fail('derived-vs-flattened:%s-vs-%s' % (tag(got), tag(want)), through=rec['desc'],
                      chain=[m['desc'] for m in self.ancestors(mi % len(self.mods))], entry=entry, input=text,
                      got=list(got), flattened=list(want), flattened_grammar=peg.render(rec['flat']))
        elif ref is not None and not sut.agrees(ref, got):
            self.fail('derived-vs-reference:%s-vs-%s' % (tag(got), ref[0]), through=rec['desc'], entry=entry, input=text,
                      got=list(got), reference=list(ref), flattened_grammar=peg.render(rec['flat']))
        self.check_untouched()
        return got

    def ancestors(self, mi):
        out = []
        while mi is not None:
            out.append(self.mods[mi])
            mi = self.mods[mi]['parent']
        return list(reversed(out))

    def close(self):
        for rec in self.mods:
            sut.forget(rec['name'])

    def run_history(self, history):
        for op in history:
            if op[0] == 'create':
                self.create(op[1], op[2])
            elif op[0] == 'parse':
                self.parse(op[1], op[2], op[3], force=len(op) > 4 and op[4] == 'force')
            if self.problem:
                break
        return self.problem


def nontrivial_parse(chain, entry):
    """A parse through a derived module that executes an inherited rule which references an
    overridden rule, or a super reference below the top of the chain, or an inherited ignore."""
    if len(chain) < 2:
        return False
    top = len(chain) - 1
    if any(lv['ignores'] for lv in chain[:-1]):
        return True
    for k, lv in enumerate(chain):
        for r in lv['defs'].values():
            for e in peg.rule_exprs(r):
                for x in peg.walk(e):
                    if x[0] in ('ref', 'call') and x[1].startswith('super.') and k < top:
                        return True
    for nm in ORDER:
        k = visible_def(chain, nm, top)
        if k is not None and k < top and overridden_reachable(chain, nm):
            return True
    return False


class C13(Check):
    id = 'C13'
    technique = 'PBT (stateful): hypothesis RuleBasedStateMachine over create-base / derive / parse histories; oracle = AST-level flattening compiled stand-alone + reference interpreter; untouched-parent probe invariant'
    rule = ('cases = histories of operations on named grammar modules: create a base (Item, Word, class Pair, Items, template '
            'Wrap, optional Extra, start; 0-2 ignore declarations, named or anonymous), derive from any existing module '
            '(each rule inherited, overridden, or overridden with super.R / super.Wrap(x); new rule Extra; own ignore '
            'declarations when an ancestor has some; chains up to length 3, siblings, dotted module names), parse through '
            'any existing module (module-level parse or any visible parameterless rule/class) on inputs over {a,b,c} plus the '
            'ignorable characters in use. Each parse must equal the parse through the flattened stand-alone grammar '
            '(late binding, super = private copy of the parent level\'s rule, ignores united) and the reference interpreter on '
            'it; after every operation every existing module must still answer 15 probe inputs as when it was created. '
            'Non-trivial iff the parse goes through a derived module whose chain has an inherited rule reaching an overridden '
            'rule, a super reference below the top of the chain, or an inherited ignore declaration; distinct by (chain text, '
            'entry, input).')
    assumptions = ['a derived grammar declares ignore patterns only when an ancestor already has some (otherwise inherited literals were compiled without skipping; the statement does not cover that mix)',
                   'entry points that are inherited, not redefined rule/class objects of a derived module and reach an overridden rule are excluded: known finding F13e']
    budget_quick = 170
    budget_thorough = 1500

    def tasks(self, tier, seed):
        n = 16 if tier == 'quick' else 64
        per = 60 if tier == 'quick' else 400
        return [('machine', seed * 1000003 + s, per) for s in range(n)]

    def run_task(self, task):
        import hypothesis
        from hypothesis import settings, HealthCheck, Phase, strategies as st
        from hypothesis.stateful import RuleBasedStateMachine, rule, precondition, initialize, run_state_machine_as_test
        res = Result()
        _, s, n = task
        check = self

        class Machine(RuleBasedStateMachine):
            def __init__(self):
                super().__init__()
                self.world = World(res)
                self.history = []

            @initialize(level=level_strategy(st, True, (), False))
            def first(self, level):
                self.history.append(('create', level, None))
                self.world.create(level, None)
                self.after()

            @rule(level=level_strategy(st, True, (), False))
            def create_base(self, level):
                if sum(1 for m in self.world.mods if len(m['chain']) == 1) >= 2:
                    return
                self.history.append(('create', level, None))
                self.world.create(level, None)
                self.after()

            @rule(data=st.data())
            def derive_again(self, data):
                self.derive(data)

            @rule(data=st.data())
            def derive(self, data):
                w = self.world
                if len(w.mods) >= 7:
                    return
                cands = [i for i, m in enumerate(w.mods) if len(m['chain']) < 3]
                if not cands:
                    return
                parent = data.draw(st.sampled_from(cands))
                chain = w.mods[parent]['chain']
                names = {nm for lv in chain for nm in lv['defs']}
                used = tuple(i for lv in chain for i in lv['ignores'])
                level = data.draw(level_strategy(st, False, names, chain_has_ignore(chain), used))
                self.history.append(('create', level, parent))
                w.create(level, parent)
                self.after()

            @rule(mi=st.integers(0, 20), entry=st.sampled_from([None, None, 'start', 'Items', 'Item', 'Pair', 'Word', 'Extra']),
                  data=st.data())
            def parse(self, mi, entry, data):
                w = self.world
                if not w.mods:
                    return
                if all(len(m['chain']) == 1 for m in w.mods) and mi % 4:
                    return      # spend most parses on histories that already contain a derived module
                # prefer derived modules: they are listed once per level
                weighted = [i for i, m in enumerate(w.mods) for _ in range(len(m['chain']) ** 2)]
                mi = weighted[mi % len(weighted)]
                rec = w.mods[mi]
                ins = inputs_for(rec['chain'])
                texts = data.draw(st.lists(st.sampled_from(ins), min_size=14, max_size=14))
                for t in texts:
                    self.history.append(('parse', mi % len(w.mods), entry, t))
                    got = w.parse(mi, entry, t)
                    if got is None:
                        self.history.pop()
                        break
                    if got == 'excluded':
                        self.history.pop()
                        res.hist['excluded_F13e_entry'] += 1
                        break
                    res.evals += 1
                    res.hist['parse_through_level_%d' % len(rec['chain'])] += 1
                    if nontrivial_parse(rec['chain'], entry):
                        res.nontrivial.add(h64(rec['desc'], [m['desc'] for m in w.ancestors(mi % len(w.mods))], entry, t))
                        res.hist['nontrivial'] += 1
                        if len(res.samples) < 1 and got[0] == 'OK' and len(rec['chain']) == 3:
                            res.sample({'chain': [m['desc'] for m in w.ancestors(mi % len(w.mods))], 'entry': entry,
                                        'input': t, 'outcome': list(got)})
                    if w.problem:
                        break
                self.after()

            def after(self):
                if self.world.problem and not getattr(self, 'reported', False):
                    self.reported = True
                    res.mismatch({'history': list(self.history)})

            def teardown(self):
                self.world.close()
                res.hist['histories'] += 1
                res.hist['modules_created'] += len(self.world.mods)

        try:
            run_state_machine_as_test(
                hypothesis.seed(s)(Machine),
                settings=settings(max_examples=n, stateful_step_count=18, database=None, deadline=None,
                                  phases=[Phase.generate], suppress_health_check=list(HealthCheck),
                                  report_multiple_bugs=False))
        except runner.StopTask:
            pass
        return res

    def replay(self, case):
        w = World()
        try:
            p = w.run_history(case['history'])
        finally:
            w.close()
        return p

    def shrink(self, case, still_fails, deadline):
        import time
        hist = list(case['history'])
        # drop trailing / irrelevant operations (parses first, then creations nobody depends on)
        i = len(hist) - 1
        while i >= 0 and time.time() < deadline:
            op = hist[i]
            cand = None
            if op[0] == 'parse':
                cand = hist[:i] + hist[i + 1:]
            else:
                # a creation can go if nothing later refers to its index
                idx = sum(1 for o in hist[:i] if o[0] == 'create')
                users = [o for o in hist[i + 1:] if (o[0] == 'create' and o[2] is not None and o[2] >= idx) or
                         (o[0] == 'parse' and o[1] >= idx)]
                if not users:
                    cand = hist[:i] + hist[i + 1:]
            if cand is not None and still_fails({'history': cand}):
                hist = cand
            i -= 1
        return {'history': hist}

    def describe(self, case):
        out = []
        w = World()
        try:
            for op in case['history']:
                if op[0] == 'create':
                    rec = w.create(op[1], op[2])
                    out.append({'create': rec['desc'], 'parent': None if op[2] is None else w.mods[op[2]]['name']})
                else:
                    out.append({'parse': {'module': w.mods[op[1]]['name'], 'entry': op[2], 'input': op[3]}})
                    w.parse(op[1], op[2], op[3])
                if w.problem:
                    break
        finally:
            w.close()
        return {'history': out}

    def selftest(self):
        from selftest import test_peg
        test_peg.run()


if __name__ == '__main__':
    sys.exit(runner.main(C13()))
